#![feature(freeze)]
use core::marker::{Freeze, PhantomData};

struct Probe<T>(PhantomData<T>);
trait Fallback {
    fn is_freeze(&self) -> bool {
        false
    }
}
impl<T> Fallback for Probe<T> {}
impl<T: Freeze> Probe<T> {
    // inherent method wins over the trait method whenever the bound holds
    fn is_freeze(&self) -> bool {
        true
    }
}

fn main() {
    println!("predictor_freeze={}", Probe::<vaporetto::Predictor>(PhantomData).is_freeze());
    println!("self_test_cell={}", Probe::<core::cell::Cell<u8>>(PhantomData).is_freeze());
    println!("self_test_u8={}", Probe::<u8>(PhantomData).is_freeze());
}
