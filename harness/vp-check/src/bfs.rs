//! Engine E2 — explicit-state breadth-first search over the reachable states of ONE real
//! `Sentence` object under an operation alphabet, to a fixpoint (no depth bound).
//!
//! * every transition calls the real method on a real object (replayed from the initial state,
//!   because `Sentence` is not `Clone`);
//! * the state key is the full field snapshot from the `verif-hooks` accessor (two states are
//!   merged only if every field agrees, hence they have the same futures) plus two pieces of
//!   harness bookkeeping: the predictor link a *correct* sentence would hold (decides whether
//!   `fill_tags` is a documented panic) and the operation suffix since the last successful
//!   update (the "what a fresh sentence would have been given" descriptor);
//! * oracles: C05 (update / reset_tags transitions vs fresh constructor / default sentence),
//!   C08 (observation after `update; suffix` on the reused object == the same suffix on a
//!   freshly constructed sentence, for every reachable prior state).

use crate::mirror::*;
use crate::obs::{observe, Obs};
use crate::report::*;
use rayon::prelude::*;
use serde::{Deserialize, Serialize};
use serde_json::{json, Value};
use std::collections::{HashMap, HashSet};
use std::hash::{Hash, Hasher};
use std::sync::Mutex;
use vaporetto::{CharacterType, Predictor, Sentence};
use vaporetto_rules::sentence_filters::{ConcatGraphemeClustersFilter, KyteaWsConstFilter, PatternMatchTagger, SplitLinebreaksFilter};
use vaporetto_rules::SentenceFilter;

#[derive(Clone, Copy, Debug, PartialEq, Eq, Hash, Serialize, Deserialize, PartialOrd, Ord)]
pub enum Op {
    UpRaw(usize),
    UpTok(usize),
    UpPart(usize),
    Reset(usize),
    Predict(usize),
    Fill,
    Filter(usize),
}

pub struct PredInfo {
    pub name: &'static str,
    pub p: Box<Predictor>,
    pub predict_tags: bool,
    pub store: bool,
}

pub struct World {
    pub raw: Vec<String>,
    pub tok: Vec<String>,
    pub part: Vec<String>,
    pub preds: Vec<PredInfo>,
    pub filters: Vec<(&'static str, Box<dyn SentenceFilter>)>,
    pub ops: Vec<Op>,
    pub suffix_cap: usize,
}

fn nd<T: Clone>(ngram: T, weights: Vec<i32>) -> NgramData<T> {
    NgramData { ngram, weights }
}

pub fn model_plain() -> ModelSpec {
    ModelSpec {
        char_ngram_model: vec![nd("a".to_string(), vec![0, 3, 5, 0]), nd("ab".to_string(), vec![1, -20, 2]), nd("あ".to_string(), vec![0, 7, -2, 1])],
        type_ngram_model: vec![nd(vec![2u8, 2], vec![0, -1, 0]), nd(vec![3u8], vec![1, 0, 2, 0]), nd(vec![6u8], vec![0, 4, 4, 0])],
        dict_model: vec![WordWeightRecord { word: "ba".into(), weights: vec![2, -9, 2], comment: "".into() }],
        bias: -2,
        char_window_size: 2,
        type_window_size: 2,
        tag_models: vec![],
    }
}

fn tw(rel: u8, weights: Vec<i32>) -> TagWeight {
    TagWeight { rel_position: rel, weights }
}

pub fn model_tags2() -> ModelSpec {
    let mut m = model_plain();
    m.tag_models = vec![
        TagModel {
            token: "a".into(),
            tags: vec![vec!["X".into(), "Y".into()], vec!["p".into(), "q".into(), "r".into()]],
            char_ngram_model: vec![
                TagNgramData { ngram: "ba".into(), weights: vec![tw(0, vec![4, 0, 0, 1, 0])] },
                TagNgramData { ngram: "ab".into(), weights: vec![tw(1, vec![0, 6, 0, 0, 3]), tw(2, vec![1, 1, 1, 1, 1])] },
                // beyond the window (the trainer emits relative positions up to the n-gram size)
                TagNgramData { ngram: " ba".into(), weights: vec![tw(3, vec![-9, 0, 7, 0, 0])] },
            ],
            type_ngram_model: vec![TagNgramData { ngram: vec![2, 3], weights: vec![tw(1, vec![-1, 2, 5, 0, 0])] }],
            bias: vec![1, 0, 0, 2, 1],
        },
        TagModel {
            token: "ab".into(),
            tags: vec![vec!["Z".into()], vec!["s".into(), "t".into()]],
            char_ngram_model: vec![TagNgramData { ngram: "aba".into(), weights: vec![tw(1, vec![-3, 3])] }],
            type_ngram_model: vec![],
            bias: vec![1, 0],
        },
        TagModel {
            token: "あ".into(),
            tags: vec![vec!["V".into(), "W".into()]],
            char_ngram_model: vec![],
            type_ngram_model: vec![TagNgramData { ngram: vec![3, 2], weights: vec![tw(1, vec![0, 9])] }],
            bias: vec![0, 0],
        },
    ];
    m
}

pub fn model_tags1() -> ModelSpec {
    let mut m = model_plain();
    m.char_ngram_model.push(nd("b".to_string(), vec![2, 2, -1, 0]));
    m.tag_models = vec![
        TagModel {
            token: "a".into(),
            tags: vec![vec!["K".into(), "L".into(), "M".into()]],
            char_ngram_model: vec![TagNgramData { ngram: "a".into(), weights: vec![tw(0, vec![0, 1, 0]), tw(1, vec![0, 0, 5])] }],
            type_ngram_model: vec![TagNgramData { ngram: vec![2], weights: vec![tw(2, vec![3, 0, 0])] }],
            bias: vec![1, 1, 0],
        },
        TagModel { token: "b".into(), tags: vec![vec!["B".into()]], char_ngram_model: vec![], type_ngram_model: vec![], bias: vec![] },
    ];
    m
}

fn leak_pred(spec: &ModelSpec, predict_tags: bool, store: bool) -> Box<Predictor> {
    let model = spec.to_model().unwrap_or_else(|e| machinery_error(&e));
    let mut p = match guard(|| Predictor::new(model, predict_tags)) {
        Ok(Ok(p)) => p,
        Ok(Err(e)) => machinery_error(&format!("bfs world: Predictor::new failed: {e}")),
        Err(e) => machinery_error(&format!("bfs world: Predictor::new panicked: {e}")),
    };
    if store {
        p.store_tag_scores(true);
    }
    Box::new(p)
}

impl World {
    pub fn new(tier: Tier) -> Self {
        Self::new_with(tier, None)
    }

    /// `needed`: build only these predictors for real (the others become cheap placeholders built
    /// from an empty model; using one of them is a harness bug). Used by the schedule enumerator,
    /// which needs a fresh (never-used) set of predictors for every schedule.
    pub fn new_with(tier: Tier, needed: Option<&[usize]>) -> Self {
        // "a ba" / "a bb": the token "a" at index 0 has the same context up to the window and a different one beyond it
        let raw = vec!["abab", "a", "あaあa𠀋b", "a ba", "a bb", "a\r\nbe\u{301}", "", "a\0b"].into_iter().map(String::from).collect();
        let tok = vec!["ab a", "a/X b/Y/Z", "あ/T a\\ b", "a//x\\/ b", " a", "a  b", "a ", "a /x", "", "\\", "a\0"].into_iter().map(String::from).collect();
        let part = vec!["a|b-a", "a/X|b a/Y/Z", "あ-a b", "a//X-b/Y", "a|", "a?b", "", "\0"].into_iter().map(String::from).collect();
        let want = |i: usize| needed.map_or(true, |n| n.contains(&i));
        let empty = ModelSpec { char_window_size: 1, type_window_size: 1, ..Default::default() };
        let mk = |i: usize, spec: ModelSpec, predict_tags: bool, store: bool| if want(i) { leak_pred(&spec, predict_tags, store) } else { leak_pred(&empty, predict_tags, store) };
        let preds = vec![
            PredInfo { name: "A(no tag models)", p: mk(0, model_plain(), false, false), predict_tags: false, store: false },
            PredInfo { name: "B(2 categories, predict_tags)", p: mk(1, model_tags2(), true, false), predict_tags: true, store: false },
            PredInfo { name: "B'(2 categories, predict_tags=false)", p: mk(2, model_tags2(), false, false), predict_tags: false, store: false },
            PredInfo { name: "C(1 category, store scores)", p: mk(3, model_tags1(), true, true), predict_tags: true, store: true },
            PredInfo { name: "D(predict_tags, no tag models)", p: mk(4, model_plain(), true, false), predict_tags: true, store: false },
        ];
        let mut rules = hashbrown::HashMap::new();
        rules.insert("a".to_string(), vec![Some("R1".to_string()), None, Some("R3".to_string())]);
        rules.insert("ab".to_string(), vec![Some("Q".to_string())]);
        let filters: Vec<(&'static str, Box<dyn SentenceFilter>)> = vec![
            ("wsconst(Roman)", Box::new(KyteaWsConstFilter::new(CharacterType::Roman))),
            ("split-linebreaks", Box::new(SplitLinebreaksFilter)),
            ("concat-graphemes", Box::new(ConcatGraphemeClustersFilter)),
            ("pattern-tagger", Box::new(PatternMatchTagger::new(rules))),
        ];
        let mut w = Self { raw, tok, part, preds, filters, ops: vec![], suffix_cap: tier.pick(3, 4) };
        for i in 0..w.raw.len() {
            w.ops.push(Op::UpRaw(i));
        }
        for i in 0..w.tok.len() {
            w.ops.push(Op::UpTok(i));
        }
        for i in 0..w.part.len() {
            w.ops.push(Op::UpPart(i));
        }
        for k in 0..3 {
            w.ops.push(Op::Reset(k));
        }
        for i in 0..w.preds.len() {
            w.ops.push(Op::Predict(i));
        }
        w.ops.push(Op::Fill);
        for i in 0..w.filters.len() {
            w.ops.push(Op::Filter(i));
        }
        w
    }

    pub fn op_name(&self, op: &Op) -> String {
        match *op {
            Op::UpRaw(i) => format!("update_raw({:?})", self.raw[i]),
            Op::UpTok(i) => format!("update_tokenized({:?})", self.tok[i]),
            Op::UpPart(i) => format!("update_partial_annotation({:?})", self.part[i]),
            Op::Reset(k) => format!("reset_tags({k})"),
            Op::Predict(i) => format!("predict[{}]", self.preds[i].name),
            Op::Fill => "fill_tags".into(),
            Op::Filter(i) => format!("filter[{}]", self.filters[i].0),
        }
    }

    pub fn is_update(op: &Op) -> bool {
        matches!(op, Op::UpRaw(_) | Op::UpTok(_) | Op::UpPart(_))
    }

    /// Applies one operation to the real object. `Ok(Some(ok))` for updates.
    /// (`'w`: the sentence may link to predictors owned by this world)
    pub fn apply<'w>(&'w self, s: &mut Sentence<'static, 'w>, op: &Op) -> Result<Option<bool>, String> {
        guard(|| match *op {
            Op::UpRaw(i) => Some(s.update_raw(self.raw[i].clone()).is_ok()),
            Op::UpTok(i) => Some(s.update_tokenized(&self.tok[i]).is_ok()),
            Op::UpPart(i) => Some(s.update_partial_annotation(&self.part[i]).is_ok()),
            Op::Reset(k) => {
                s.reset_tags(k);
                None
            }
            Op::Predict(i) => {
                self.preds[i].p.predict(s);
                None
            }
            Op::Fill => {
                s.fill_tags();
                None
            }
            Op::Filter(i) => {
                self.filters[i].1.filter(s);
                None
            }
        })
    }

    /// The matching fresh constructor.
    pub fn construct<'w>(&'w self, op: &Op) -> Result<Option<Sentence<'static, 'w>>, String> {
        guard(|| match *op {
            Op::UpRaw(i) => Sentence::from_raw(self.raw[i].clone()).ok(),
            Op::UpTok(i) => Sentence::from_tokenized(&self.tok[i]).ok(),
            Op::UpPart(i) => Sentence::from_partial_annotation(&self.part[i]).ok(),
            _ => unreachable!(),
        })
    }
}

/// Harness bookkeeping carried with each state (part of the key).
#[derive(Clone, Debug, PartialEq, Eq, Hash, Default)]
pub struct Book {
    /// predictor a correct sentence is linked to
    pub link: Option<usize>,
    /// last successful update followed by the operations applied since (None if over the cap
    /// or after a failed update)
    pub suffix: Option<(Op, Vec<Op>)>,
    /// did a correct sentence store tag scores in the last fill (decides whether candidates are defined)
    pub poisoned: bool,
}

impl Book {
    pub fn legal(&self, w: &World, op: &Op) -> bool {
        match op {
            // documented panic: fill_tags after predict by a predictor built with predict_tags = false
            Op::Fill => self.link.map_or(true, |p| w.preds[p].predict_tags),
            _ => true,
        }
    }
    pub fn step(&self, w: &World, op: &Op, update_ok: Option<bool>) -> Book {
        let mut b = self.clone();
        if World::is_update(op) {
            b.link = None;
            b.suffix = if update_ok == Some(true) { Some((*op, vec![])) } else { None };
        } else {
            if let Op::Predict(i) = op {
                b.link = Some(*i);
            }
            if let Some((_, v)) = b.suffix.as_mut() {
                v.push(*op);
                if v.len() > w.suffix_cap {
                    b.suffix = None;
                }
            }
        }
        b
    }
}

pub struct Node {
    pub parent: u32,
    pub op: Op,
    pub depth: u32,
    pub book: Book,
}

fn key_of(s: &Sentence, book: &Book) -> u128 {
    let st = s.verif_state();
    let mut h1 = std::collections::hash_map::DefaultHasher::new();
    st.hash(&mut h1);
    book.hash(&mut h1);
    let a = h1.finish();
    let mut h2 = std::collections::hash_map::DefaultHasher::new();
    0x9e3779b97f4a7c15u64.hash(&mut h2);
    book.hash(&mut h2);
    st.hash(&mut h2);
    ((a as u128) << 64) | h2.finish() as u128
}

/// Hidden-state invariant (through the verif-hooks snapshot): the sentence is linked to exactly
/// the predictor the history says it should be linked to - none after any update, successful or
/// failed ("the default sentence"), the last predictor otherwise.
pub fn oracle_link(w: &World, op: &Op, book: &Book, s: &Sentence) -> Option<Found> {
    let got = s.verif_state().predictor;
    let want = book.link.map(|i| &*w.preds[i].p as *const Predictor as usize);
    if got != want {
        let name = |a: Option<usize>| match a {
            None => "none".to_string(),
            Some(x) => w.preds.iter().find(|p| &*p.p as *const Predictor as usize == x).map_or("an unknown predictor".to_string(), |p| p.name.to_string()),
        };
        return Some(Found {
            sig: format!("hidden-link op={} got={} want={}", w.op_name(op), name(got), name(want)),
            what: format!("after {} the sentence is internally linked to predictor [{}], the history says [{}]", w.op_name(op), name(got), name(want)),
        });
    }
    None
}

pub fn history(nodes: &[Node], mut i: usize) -> Vec<Op> {
    let mut h = vec![];
    while i != 0 {
        h.push(nodes[i].op);
        i = nodes[i].parent as usize;
    }
    h.reverse();
    h
}

/// Replays a history on a fresh default sentence. Err if any step panics.
pub fn replay_history<'w>(w: &'w World, h: &[Op]) -> Result<Sentence<'static, 'w>, String> {
    let mut s = Sentence::default();
    for op in h {
        w.apply(&mut s, op)?;
    }
    Ok(s)
}

#[derive(Clone, Copy, PartialEq, Eq, Debug)]
pub enum Mode {
    C05,
    C08,
}

fn diff_fields(a: &Obs, b: &Obs) -> Vec<&'static str> {
    let mut d = vec![];
    if a.text != b.text {
        d.push("text");
    }
    if a.types != b.types {
        d.push("char_types");
    }
    if a.boundaries != b.boundaries {
        d.push("boundaries");
    }
    if a.scores != b.scores {
        d.push("scores");
    }
    if a.n_tags != b.n_tags {
        d.push("n_tags");
    }
    if a.tags != b.tags {
        d.push("tags");
    }
    if a.tokens != b.tokens {
        d.push("tokens");
    }
    if a.cands != b.cands {
        d.push("tag_candidates");
    }
    if a.tokenized != b.tokenized {
        d.push("tokenized_text");
    }
    if a.partial != b.partial {
        d.push("partial_annotation_text");
    }
    d
}

pub struct Found {
    pub sig: String,
    pub what: String,
}

/// C05 oracle for one transition `op` out of a state (sentence `s` is the state AFTER the op).
pub fn oracle_c05<'w>(w: &'w World, op: &Op, res: &Result<Option<bool>, String>, s: &Sentence<'static, 'w>, before: &Obs) -> Vec<Found> {
    let mut out = vec![];
    let name = w.op_name(op);
    match (op, res) {
        (_, Err(p)) if World::is_update(op) || matches!(op, Op::Reset(_)) => {
            out.push(Found { sig: format!("panic op={name}"), what: format!("{name} panicked: {p}") });
        }
        (Op::UpRaw(_) | Op::UpTok(_) | Op::UpPart(_), Ok(Some(ok))) => {
            let got = observe(s, false);
            // the matching constructor must agree on acceptance (and must not panic itself)
            match w.construct(op) {
                Err(p) => out.push(Found { sig: format!("constructor-panic op={name}"), what: format!("the constructor matching {name} panicked: {p}") }),
                Ok(fresh) => {
                    if fresh.is_some() != *ok {
                        out.push(Found { sig: format!("accept-mismatch op={name}"), what: format!("{name} returned ok={ok} but the constructor returned ok={}", fresh.is_some()) });
                    }
                    let want = match (&fresh, ok) {
                        (Some(f), true) => Some(observe(f, false)),
                        (_, false) => Some(observe(&Sentence::default(), false)),
                        _ => None,
                    };
                    if let Some(want) = want {
                        if got != want {
                            let d = diff_fields(&got, &want);
                            let kind = if *ok { "update-ok-differs-from-fresh" } else { "update-err-not-default" };
                            out.push(Found {
                                sig: format!("{kind} op={name} fields={}", d.join("+")),
                                what: format!("after {name} (ok={ok}) the sentence differs from {} in {:?}: got {:?} want {:?}", if *ok { "the fresh constructor on the same input" } else { "Sentence::default()" }, d, brief(&got, &d), brief(&want, &d)),
                            });
                        }
                    }
                }
            }
            // shape laws + every accessor / writer / iterator works
            let n = got.text.chars().count();
            let mut bad = vec![];
            if got.types.len() != n || got.text.chars().zip(&got.types).any(|(c, &t)| CharacterType::get_type(c) as u8 != t) {
                bad.push("char_types");
            }
            if got.boundaries.len() + 1 != n {
                bad.push("boundaries.len");
            }
            if got.tags.len() != n * got.n_tags {
                bad.push("tags.len!=chars*n_tags");
            }
            if !got.scores.is_empty() {
                bad.push("scores-not-empty");
            }
            if got.tokens.is_err() {
                bad.push("iter_tokens-panics");
            }
            if got.tokenized.is_err() {
                bad.push("write_tokenized-panics");
            }
            if got.partial.is_err() {
                bad.push("write_partial-panics");
            }
            if !bad.is_empty() {
                out.push(Found { sig: format!("shape op={name} bad={}", bad.join("+")), what: format!("after {name} the sentence is inconsistent: {bad:?}; n_tags={} tags.len={} chars={n} tokens={:?}", got.n_tags, got.tags.len(), got.tokens) });
            }
        }
        (Op::Reset(k), Ok(_)) => {
            let got = observe(s, false);
            let n = got.text.chars().count();
            let mut bad = vec![];
            if got.n_tags != *k || got.tags.len() != n * k || got.tags.iter().any(|t| t.is_some()) {
                bad.push("tags");
            }
            if got.text != before.text || got.types != before.types || got.boundaries != before.boundaries || got.scores != before.scores {
                bad.push("changed-other-fields");
            }
            if got.tokens.is_err() || got.tokenized.is_err() || got.partial.is_err() {
                bad.push("accessor-panics");
            }
            if !bad.is_empty() {
                out.push(Found { sig: format!("reset op={name} bad={}", bad.join("+")), what: format!("after {name}: {bad:?}") });
            }
        }
        _ => {}
    }
    out
}

fn brief(o: &Obs, fields: &[&str]) -> Value {
    let mut m = serde_json::Map::new();
    for f in fields {
        let v = match *f {
            "text" => json!(o.text),
            "char_types" => json!(o.types),
            "boundaries" => json!(o.boundaries),
            "scores" => json!(o.scores),
            "n_tags" => json!(o.n_tags),
            "tags" => json!(o.tags),
            "tokens" => json!(format!("{:?}", o.tokens)),
            "tag_candidates" => json!(format!("{:?}", o.cands)),
            "tokenized_text" => json!(format!("{:?}", o.tokenized)),
            _ => json!(format!("{:?}", o.partial)),
        };
        m.insert(f.to_string(), v);
    }
    Value::Object(m)
}

pub struct FreshCache {
    map: Mutex<HashMap<(Op, Vec<Op>), Option<Obs>>>,
}

impl FreshCache {
    pub fn new() -> Self {
        Self { map: Mutex::new(HashMap::new()) }
    }
    /// Observation of a freshly constructed sentence after the same suffix; None when the fresh
    /// path itself fails (constructor error / panic in an op): then there is nothing to compare.
    pub fn get(&self, w: &World, upd: &Op, suffix: &[Op]) -> Option<Obs> {
        let k = (*upd, suffix.to_vec());
        if let Some(v) = self.map.lock().unwrap().get(&k) {
            return v.clone();
        }
        let v = (|| {
            let mut s = w.construct(upd).ok()??;
            for op in suffix {
                w.apply(&mut s, op).ok()?;
            }
            let mut o = observe(&s, true);
            // candidates are only defined when the fresh run does not panic on them
            if matches!(o.cands, Some(Err(_))) {
                o.cands = None;
            }
            Some(o)
        })();
        self.map.lock().unwrap().insert(k, v.clone());
        v
    }
}

/// C08 oracle: state `s` reached by `history`, whose suffix since the last successful update is
/// `book.suffix`; compare with the fresh sentence after the same suffix.
pub fn oracle_c08<'w>(w: &'w World, fresh: &FreshCache, book: &Book, s: &Sentence<'static, 'w>) -> Vec<Found> {
    let mut out = vec![];
    let Some((upd, suffix)) = &book.suffix else { return out };
    let Some(want) = fresh.get(w, upd, suffix) else { return out };
    let mut got = observe(s, want.cands.is_some());
    if want.cands.is_none() {
        got.cands = None;
    }
    if got != want {
        let d = diff_fields(&got, &want);
        let sfx: Vec<String> = std::iter::once(upd).chain(suffix.iter()).map(|o| w.op_name(o)).collect();
        out.push(Found {
            sig: format!("reuse-differs fields={} suffix={}", d.join("+"), sfx.join(";")),
            what: format!("reused sentence differs from a fresh one after [{}] in {:?}: reused {:?} fresh {:?}", sfx.join("; "), d, brief(&got, &d), brief(&want, &d)),
        });
    }
    out
}

pub struct BfsResult {
    pub states: u64,
    pub transitions: u64,
    pub max_depth: u32,
    pub distinct_obs: u64,
    pub capped: bool,
    pub per_depth: Vec<u64>,
}

/// Runs the search; reports violations of `mode`'s oracle into `chk`.
pub fn search(w: &World, mode: Mode, chk: &Check, max_states: usize) -> BfsResult {
    let fresh = FreshCache::new();
    let mut nodes: Vec<Node> = vec![Node { parent: 0, op: Op::Reset(0), depth: 0, book: Book::default() }];
    let mut seen: HashSet<u128> = HashSet::new();
    seen.insert(key_of(&Sentence::default(), &Book::default()));
    let mut frontier: Vec<usize> = vec![0];
    let mut transitions = 0u64;
    let mut max_depth = 0;
    let obs_seen: Mutex<HashSet<u64>> = Mutex::new(HashSet::new());
    let mut per_depth = vec![1u64];
    let mut capped = false;
    while !frontier.is_empty() {
        // expand every frontier node under every legal operation (parallel), dedup serially
        let nodes_ref = &nodes;
        let results: Vec<Vec<(u128, usize, Op, Book, bool)>> = frontier
            .par_iter()
            .map(|&ni| {
                let h = history(nodes_ref, ni);
                let book = &nodes_ref[ni].book;
                let mut out = vec![];
                if book.poisoned {
                    return out;
                }
                let before = match replay_history(w, &h) {
                    Ok(s) => observe(&s, false),
                    Err(e) => machinery_error(&format!("replay of an explored history diverged (panicked): {e}")),
                };
                for op in &w.ops {
                    if !book.legal(w, op) {
                        continue;
                    }
                    let mut s = replay_history(w, &h).unwrap_or_else(|e| machinery_error(&format!("replay diverged: {e}")));
                    let res = w.apply(&mut s, op);
                    let update_ok = res.as_ref().ok().and_then(|x| *x);
                    let mut nb = book.step(w, op, update_ok);
                    let mut founds = vec![];
                    match mode {
                        Mode::C05 => {
                            founds.extend(oracle_c05(w, op, &res, &s, &before));
                            if res.is_ok() {
                                founds.extend(oracle_link(w, op, &nb, &s));
                            }
                            // instrumented re-execution (C18): a panic of ANY operation matters
                            if let (Err(p), true) = (&res, c18_mode().is_some() && !World::is_update(op) && !matches!(op, Op::Reset(_))) {
                                founds.push(Found { sig: format!("panic op={}", w.op_name(op)), what: format!("{} panicked: {p}", w.op_name(op)) });
                            }
                        }
                        Mode::C08 => {
                            if let Err(p) = &res {
                                founds.push(Found { sig: format!("panic op={}", w.op_name(op)), what: format!("{} panicked on a reused sentence: {p}", w.op_name(op)) });
                            } else {
                                founds.extend(oracle_c08(w, &fresh, &nb, &s));
                            }
                        }
                    }
                    if res.is_err() {
                        nb.poisoned = true; // the object may be half-updated; do not explore beyond
                    }
                    let mut hh = h.clone();
                    hh.push(*op);
                    for f in founds {
                        let case = json!({"mode": format!("{mode:?}"), "sig": f.sig, "cap": w.suffix_cap, "history": hh, "readable": hh.iter().map(|o| w.op_name(o)).collect::<Vec<_>>()});
                        chk.violation(f.sig, f.what, case);
                    }
                    let key = key_of(&s, &nb);
                    {
                        let o = observe(&s, false);
                        let mut hs = std::collections::hash_map::DefaultHasher::new();
                        o.hash(&mut hs);
                        obs_seen.lock().unwrap().insert(hs.finish());
                    }
                    out.push((key, ni, *op, nb, res.is_err()));
                }
                out
            })
            .collect();
        let mut next = vec![];
        for r in results {
            for (key, parent, op, book, _) in r {
                transitions += 1;
                if seen.insert(key) {
                    if nodes.len() >= max_states {
                        capped = true;
                        continue;
                    }
                    let depth = nodes[parent].depth + 1;
                    max_depth = max_depth.max(depth);
                    nodes.push(Node { parent: parent as u32, op, depth, book });
                    next.push(nodes.len() - 1);
                }
            }
        }
        per_depth.push(next.len() as u64);
        frontier = next;
        if capped {
            break;
        }
    }
    chk.eval(transitions);
    // samples: a few explored histories
    for &i in [1usize, nodes.len() / 3, nodes.len() / 2, nodes.len() - 1].iter() {
        if i < nodes.len() && i > 0 {
            let h = history(&nodes, i);
            chk.sample(json!({"history": h.iter().map(|o| w.op_name(o)).collect::<Vec<_>>(), "depth": nodes[i].depth}));
        }
    }
    let distinct_obs = obs_seen.into_inner().unwrap().len() as u64;
    BfsResult { states: nodes.len() as u64, transitions, max_depth, distinct_obs, capped, per_depth }
}

/// Re-runs the oracles along one recorded history; returns the first violation found at its
/// last step.
pub fn replay_case(mode: Mode, case: &Value) -> Option<(String, String)> {
    let w = World::new(if case["cap"].as_u64() == Some(4) { Tier::Thorough } else { Tier::Quick });
    let h: Vec<Op> = serde_json::from_value(case["history"].clone()).ok()?;
    let fresh = FreshCache::new();
    let (last, prefix) = h.split_last()?;
    let mut book = Book::default();
    let mut s = Sentence::default();
    for op in prefix {
        let r = w.apply(&mut s, op).ok()?;
        book = book.step(&w, op, r);
    }
    let before = observe(&s, false);
    let res = w.apply(&mut s, last);
    let nb = book.step(&w, last, res.as_ref().ok().and_then(|x| *x));
    let founds = match mode {
        Mode::C05 => {
            let mut f = oracle_c05(&w, last, &res, &s, &before);
            if res.is_ok() {
                f.extend(oracle_link(&w, last, &nb, &s));
            }
            if let (Err(p), true) = (&res, c18_mode().is_some() && !World::is_update(last) && !matches!(last, Op::Reset(_))) {
                f.push(Found { sig: format!("panic op={}", w.op_name(last)), what: format!("{} panicked: {p}", w.op_name(last)) });
            }
            f
        }
        Mode::C08 => {
            if let Err(p) = &res {
                vec![Found { sig: format!("panic op={}", w.op_name(last)), what: format!("{} panicked on a reused sentence: {p}", w.op_name(last)) }]
            } else {
                oracle_c08(&w, &fresh, &nb, &s)
            }
        }
    };
    let want = case["sig"].as_str();
    founds.into_iter().find(|f| want.map_or(true, |w| w == f.sig)).map(|f| (f.sig, f.what))
}
