//! Shared machinery for the trainer properties C09-C12 (engine E5): configurations, corpora,
//! one real training run with the verif-hooks trace, and the independent feature extractor.

use crate::mirror::ModelSpec;
use crate::refmodel::*;
use crate::report::guard;
use serde::{Deserialize, Serialize};
use std::collections::BTreeMap;
use vaporetto::{Sentence, SolverType, Trainer, VerifFeature, VerifRawLearner, VerifTrainTrace};

#[derive(Clone, Debug, Serialize, Deserialize, PartialEq, Eq, Hash)]
pub struct Config {
    pub charw: u8,
    pub charn: u8,
    pub typew: u8,
    pub typen: u8,
    pub dict: Vec<String>,
    pub bucket: u8,
    pub solver: u8,
}

impl Config {
    pub fn short(&self) -> String {
        // a large dictionary is named by its size (signatures stay short)
        let dict = if self.dict.len() > 64 { format!("[{} words]", self.dict.len()) } else { format!("{:?}", self.dict) };
        format!("cw={} cn={} tw={} tn={} dict={dict} bucket={} solver={}", self.charw, self.charn, self.typew, self.typen, self.bucket, self.solver)
    }
}

/// A corpus line: (is_partial_annotation, text)
pub type Line = (bool, String);

#[derive(Clone, Debug, Serialize, Deserialize, PartialEq, Eq, Hash)]
pub struct Corpus {
    pub name: String,
    pub lines: Vec<Line>,
    pub tag_dict: Vec<String>, // tokenized lines
}

pub fn solver(i: u8) -> SolverType {
    match i {
        0 => SolverType::L2RegularizedLogistic,
        1 => SolverType::L2RegularizedL2LossSVCDual,
        2 => SolverType::L2RegularizedL2LossSVC,
        3 => SolverType::L2RegularizedL1LossSVCDual,
        4 => SolverType::CrammerSingerSVC,
        5 => SolverType::L1RegularizedL2LossSVC,
        6 => SolverType::L1RegularizedLogistic,
        _ => SolverType::L2RegularizedLogisticDual,
    }
}

pub fn parse_line(l: &Line) -> Sentence<'static, 'static> {
    if l.0 {
        Sentence::from_partial_annotation(&l.1).unwrap_or_else(|e| crate::report::machinery_error(&format!("corpus line {:?}: {e}", l.1)))
    } else {
        Sentence::from_tokenized(&l.1).unwrap_or_else(|e| crate::report::machinery_error(&format!("corpus line {:?}: {e}", l.1)))
    }
}

pub enum Trained {
    /// trainer returned an error (message)
    Err(String),
    Ok(Box<(vaporetto::Model, ModelSpec, VerifTrainTrace)>),
}

/// One real training run. Outer Err = a panic somewhere in Trainer::new / add_example / train.
pub fn train_once(cfg: &Config, corpus: &Corpus) -> Result<Trained, String> {
    let sents: Vec<Sentence<'static, 'static>> = corpus.lines.iter().map(parse_line).collect();
    let dict_sents: Vec<Sentence<'static, 'static>> = corpus.tag_dict.iter().map(|l| parse_line(&(false, l.clone()))).collect();
    guard(|| {
        liblinear::toggle_liblinear_stdout_output(false);
        let _ = vaporetto::verif_take_train_trace();
        let mut trainer = match Trainer::new(cfg.charw, cfg.charn, cfg.typew, cfg.typen, cfg.dict.clone(), cfg.bucket, &dict_sents) {
            Ok(t) => t,
            Err(e) => return Trained::Err(format!("Trainer::new: {e}")),
        };
        for s in &sents {
            trainer.add_example(s);
        }
        match trainer.train(0.01, 1.0, solver(cfg.solver)) {
            Err(e) => Trained::Err(format!("train: {e}")),
            Ok(m) => {
                let trace = vaporetto::verif_take_train_trace();
                let spec = ModelSpec::from_model(&m).unwrap_or_else(|e| crate::report::machinery_error(&format!("trained model does not decode in the mirror: {e}")));
                Trained::Ok(Box::new((m, spec, trace)))
            }
        }
    })
}

/// The documented boundary features of boundary `i` (between characters i and i+1), with counts.
pub fn ref_features(cfg: &Config, text: &[char], i: usize) -> BTreeMap<VerifFeature, u32> {
    let n = text.len() as isize;
    let types: Vec<u8> = text.iter().map(|&c| ctype(c)).collect();
    let mut out: BTreeMap<VerifFeature, u32> = BTreeMap::new();
    let b = i as isize + 1; // first character right of the boundary
    for (w, nn, is_char) in [(cfg.charw as isize, cfg.charn as isize, true), (cfg.typew as isize, cfg.typen as isize, false)] {
        let lo = (b - w).max(0);
        let hi = (b + w).min(n);
        for len in 1..=nn {
            let mut j = lo;
            while j + len <= hi {
                let f = if is_char {
                    VerifFeature::CharNgram { ngram: text[j as usize..(j + len) as usize].iter().collect(), rel_position: j - b }
                } else {
                    VerifFeature::TypeNgram { ngram: types[j as usize..(j + len) as usize].to_vec(), rel_position: j - b }
                };
                *out.entry(f).or_insert(0) += 1;
                j += 1;
            }
        }
    }
    for word in &cfg.dict {
        let w: Vec<char> = word.chars().collect();
        let m = w.len();
        if m == 0 || m > text.len() {
            continue;
        }
        for s in 0..=text.len() - m {
            if text[s..s + m] == w[..] {
                let e = s + m;
                let bucket = m.min(cfg.bucket as usize);
                let mut add = |bd: usize, pos: u8| {
                    if bd == i {
                        *out.entry(VerifFeature::DictWord { length: bucket, position: pos }).or_insert(0) += 1;
                    }
                };
                if s != 0 {
                    add(s - 1, 0);
                }
                for k in s..e - 1 {
                    add(k, 1);
                }
                if e != text.len() {
                    add(e - 1, 2);
                }
            }
        }
    }
    out
}

/// The documented tag features of a token [s, e): n-grams containing the token plus 1..N extra
/// characters, rel_position = characters past the token end.
pub fn ref_tag_features(cfg: &Config, text: &[char], s: usize, e: usize) -> Vec<VerifFeature> {
    let n = text.len();
    let types: Vec<u8> = text.iter().map(|&c| ctype(c)).collect();
    let tl = e - s;
    let mut out = vec![];
    for (nn, is_char) in [(cfg.charn as usize, true), (cfg.typen as usize, false)] {
        for extra in 1..=nn {
            let len = tl + extra;
            if len > n {
                continue;
            }
            let lo = e.saturating_sub(len);
            let hi = s.min(n - len);
            let mut i = lo;
            while i <= hi {
                let rel = (i + len - e) as isize;
                out.push(if is_char {
                    VerifFeature::CharNgram { ngram: text[i..i + len].iter().collect(), rel_position: rel }
                } else {
                    VerifFeature::TypeNgram { ngram: types[i..i + len].to_vec(), rel_position: rel }
                });
                i += 1;
            }
        }
    }
    out
}

pub fn corpora_boundary(n: usize) -> Vec<Corpus> {
    let all = vec![
        Corpus { name: "tok-basic".into(), lines: vec![(false, "a b".into()), (false, "ab a".into()), (false, "あ a1".into()), (false, "a ab".into())], tag_dict: vec![] },
        Corpus { name: "partial".into(), lines: vec![(true, "a|b-a".into()), (true, "a b|a-a".into()), (true, "あ-あ|a b".into())], tag_dict: vec![] },
        Corpus { name: "mixed".into(), lines: vec![(false, "abc a b".into()), (true, "a-b-c|a b".into()), (false, "1 1a あa".into()), (true, "a 1|1-a".into())], tag_dict: vec![] },
        Corpus { name: "long".into(), lines: vec![(false, "abcab cab ca b".into()), (false, "ああ aあ a ab".into())], tag_dict: vec![] },
        Corpus { name: "tagged".into(), lines: vec![(false, "a/X b/Y".into()), (false, "a/Z ab/Y a/X".into()), (false, "b/Y a/X".into())], tag_dict: vec![] },
        Corpus { name: "unknown-heavy".into(), lines: vec![(true, "a b a|b-a b".into()), (true, "a b".into()), (true, "b-a|a".into())], tag_dict: vec![] },
        Corpus { name: "digits".into(), lines: vec![(false, "1 12 a1".into()), (false, "21 a 1".into())], tag_dict: vec![] },
        Corpus { name: "kana".into(), lines: vec![(false, "あア ア あ".into()), (true, "あ|ア-ア|あ".into())], tag_dict: vec![] },
        Corpus { name: "one-line".into(), lines: vec![(false, "ab ab a".into())], tag_dict: vec![] },
        Corpus { name: "repeats".into(), lines: vec![(false, "a a a a".into()), (false, "aa aa".into()), (false, "aaa a".into())], tag_dict: vec![] },
        Corpus { name: "tok-multibyte".into(), lines: vec![(false, "𠀋a 𠀋 a𠀋".into()), (false, "a 𠀋𠀋".into())], tag_dict: vec![] },
        Corpus { name: "partial-tagged".into(), lines: vec![(true, "a/X|b-a/Y".into()), (true, "a b/Q|a/X".into())], tag_dict: vec![] },
    ];
    all.into_iter().take(n).collect()
}

/// Systematic tagged corpora: token "a" occurs `occ` times (one sentence "a/<tags> b" each, plus a
/// tag-free filler sentence), every slot of every occurrence is absent / "X" / "Y": all
/// 3^(slots*occ) tag matrices. Covers constant-then-varying slots, holes, all-absent rows, etc.
pub fn tag_matrix_corpora(slots: usize, occ: usize, step: usize) -> Vec<Corpus> {
    let mut out = vec![];
    let total = 3usize.pow((slots * occ) as u32);
    for m in (0..total).step_by(step.max(1)) {
        let mut x = m;
        let mut lines = vec![];
        let mut name = String::new();
        for _ in 0..occ {
            let mut tok = String::from("a");
            let mut cells = vec![];
            for _ in 0..slots {
                cells.push(x % 3);
                x /= 3;
            }
            // trailing absent tags are simply not written
            let upto = cells.iter().rposition(|&c| c != 0).map_or(0, |p| p + 1);
            for &c in &cells[..upto] {
                tok.push('/');
                tok.push_str(["", "X", "Y"][c]);
            }
            name.push_str(&tok);
            name.push(' ');
            lines.push((false, format!("{tok} b")));
        }
        lines.push((false, "cd c d dc".to_string()));
        out.push(Corpus { name: format!("matrix[{}]", name.trim_end()), lines, tag_dict: vec![] });
    }
    out
}


const QMAX: f64 = 32767.0; // (1 << (QUANTIZE_BIT_DEPTH - 1)) - 1

fn trunc(x: f64) -> i32 {
    x as i32 // truncation toward zero, what to_int_unchecked does for in-range values
}

/// The quantised boundary classifier dictated by the learner's RAW output (recorded by the hook
/// before the trainer looks anything up): the word-boundary class is the position of label 1 in
/// the learner's label list; everything is divided by max|.|/32767 and truncated.
pub fn expected_boundary(raw: &VerifRawLearner) -> Result<(i32, BTreeMap<VerifFeature, i32>), String> {
    let idx = raw.labels.iter().position(|&l| l == 1).ok_or("the learner has no word-boundary class")?;
    let mut wmax = raw.bias[idx].abs();
    for (_, c) in &raw.coef {
        wmax = wmax.max(c[idx].abs());
    }
    let mult = wmax / QMAX;
    if mult == 0.0 {
        return Err("all weights are zero".into());
    }
    Ok((trunc(raw.bias[idx] / mult), raw.coef.iter().map(|(f, c)| (f.clone(), trunc(c[idx] / mult))).collect()))
}

/// The quantised tag classifier of one (token, category) dictated by the learner's raw output:
/// per learner class id the bias and the weight of every feature.
#[allow(clippy::type_complexity)]
pub fn expected_tag(raw: &VerifRawLearner) -> (BTreeMap<usize, i32>, BTreeMap<(usize, VerifFeature), i32>) {
    let mut wmax = 1e-6f64;
    for i in 0..raw.labels.len() {
        wmax = wmax.max(raw.bias[i].abs());
        for (_, c) in &raw.coef {
            wmax = wmax.max(c[i].abs());
        }
    }
    let mult = wmax / QMAX;
    let mut b = BTreeMap::new();
    let mut w = BTreeMap::new();
    for (i, &cls) in raw.labels.iter().enumerate() {
        b.insert(cls as usize, trunc(raw.bias[i] / mult));
        for (f, c) in &raw.coef {
            w.insert((cls as usize, f.clone()), trunc(c[i] / mult));
        }
    }
    (b, w)
}

/// Compares the trainer's own (quantised) trace with what the raw learner output dictates.
pub fn check_trace_against_learner(trace: &VerifTrainTrace) -> Option<(String, String)> {
    if let Some(raw) = &trace.raw_boundary {
        match expected_boundary(raw) {
            Err(e) => return Some(("learner-boundary".into(), format!("a model was returned although {e}"))),
            Ok((bias, weights)) => {
                if bias != trace.bias {
                    return Some(("learner-bias".into(), format!("the trainer took bias {} from the learner; the learner's word-boundary class (labels {:?}, raw biases {:?}) quantises to {bias}", trace.bias, raw.labels, raw.bias)));
                }
                let got: BTreeMap<VerifFeature, i32> = trace.weights.iter().cloned().collect();
                if got != weights {
                    let d: Vec<String> = weights.iter().filter(|(f, w)| got.get(*f) != Some(*w)).take(3).map(|(f, w)| format!("{f:?}: trainer {:?}, learner {w}", got.get(f))).collect();
                    return Some(("learner-weights".into(), format!("the trainer's quantised weights differ from the learner's raw coefficients: {}", d.join("; "))));
                }
                if raw.num_features != raw.coef.len() {
                    return Some(("learner-features".into(), format!("the learner has {} features, the trainer's feature table {}", raw.num_features, raw.coef.len())));
                }
            }
        }
    } else {
        return Some(("learner-missing".into(), "no raw learner output was recorded for the boundary model".into()));
    }
    for (tok, cat, raw) in &trace.raw_tags {
        let (eb, ew) = expected_tag(raw);
        let gb: BTreeMap<usize, i32> = trace.tag_biases.iter().filter(|x| &x.0 == tok && x.1 == *cat).map(|x| (x.2, x.3)).collect();
        if gb != eb {
            return Some(("learner-tag-bias".into(), format!("token {tok:?} category {cat}: trainer biases {gb:?}, the learner's raw output quantises to {eb:?}")));
        }
        let gw: BTreeMap<(usize, VerifFeature), i32> = trace.tag_weights.iter().filter(|x| &x.0 == tok && x.1 == *cat).map(|x| ((x.2, x.3.clone()), x.4)).collect();
        if gw != ew {
            let d: Vec<String> = ew.iter().filter(|(k, w)| gw.get(*k) != Some(*w)).take(3).map(|(k, w)| format!("{k:?}: trainer {:?}, learner {w}", gw.get(k))).collect();
            return Some(("learner-tag-weights".into(), format!("token {tok:?} category {cat}: {}", d.join("; "))));
        }
    }
    None
}
