//! Harness-side mirror of vaporetto's `ModelData` (same field order, same bincode layout).
//! `Model::new` is crate-private, so well-formed models are generated here and handed to the
//! real code through `Model::read_slice`; trained / converted models are inspected by decoding
//! `Model::to_vec`. The mirror is self-checked against `resources/model.bin` on every run.

use bincode::{Decode, Encode};
use serde::{Deserialize, Serialize};

pub const MAGIC: &[u8] = b"VaporettoTokenizer 0.5.0\n";

#[derive(Clone, Debug, PartialEq, Eq, Hash, Encode, Decode, Serialize, Deserialize)]
pub struct NgramData<T> {
    pub ngram: T,
    pub weights: Vec<i32>,
}

#[derive(Clone, Debug, PartialEq, Eq, Hash, Encode, Decode, Serialize, Deserialize)]
pub struct TagWeight {
    pub rel_position: u8,
    pub weights: Vec<i32>,
}

#[derive(Clone, Debug, PartialEq, Eq, Hash, Encode, Decode, Serialize, Deserialize)]
pub struct TagNgramData<T> {
    pub ngram: T,
    pub weights: Vec<TagWeight>,
}

#[derive(Clone, Debug, PartialEq, Eq, Hash, Encode, Decode, Serialize, Deserialize)]
pub struct WordWeightRecord {
    pub word: String,
    pub weights: Vec<i32>,
    pub comment: String,
}

#[derive(Clone, Debug, PartialEq, Eq, Hash, Encode, Decode, Serialize, Deserialize)]
pub struct TagModel {
    pub token: String,
    pub tags: Vec<Vec<String>>,
    pub char_ngram_model: Vec<TagNgramData<String>>,
    pub type_ngram_model: Vec<TagNgramData<Vec<u8>>>,
    pub bias: Vec<i32>,
}

#[derive(Clone, Debug, PartialEq, Eq, Hash, Encode, Decode, Serialize, Deserialize, Default)]
pub struct ModelSpec {
    pub char_ngram_model: Vec<NgramData<String>>,
    pub type_ngram_model: Vec<NgramData<Vec<u8>>>,
    pub dict_model: Vec<WordWeightRecord>,
    pub bias: i32,
    pub char_window_size: u8,
    pub type_window_size: u8,
    pub tag_models: Vec<TagModel>,
}

impl ModelSpec {
    pub fn to_bytes(&self) -> Vec<u8> {
        let mut v = MAGIC.to_vec();
        v.extend(bincode::encode_to_vec(self, bincode::config::standard()).expect("mirror encode"));
        v
    }

    pub fn from_bytes(b: &[u8]) -> Result<(Self, usize), String> {
        if b.len() < MAGIC.len() || &b[..MAGIC.len()] != MAGIC {
            return Err("bad magic".into());
        }
        let (m, n): (Self, usize) =
            bincode::decode_from_slice(&b[MAGIC.len()..], bincode::config::standard())
                .map_err(|e| format!("mirror decode: {e}"))?;
        Ok((m, MAGIC.len() + n))
    }

    /// Hands the spec to the real code through the public API.
    pub fn to_model(&self) -> Result<vaporetto::Model, String> {
        let b = self.to_bytes();
        match vaporetto::Model::read_slice(&b) {
            Ok((m, rest)) => {
                if !rest.is_empty() {
                    return Err(format!("read_slice left {} bytes of a mirror-encoded model", rest.len()));
                }
                Ok(m)
            }
            Err(e) => Err(format!("read_slice rejected a mirror-encoded model: {e}")),
        }
    }

    /// Decodes a real model (through its public serialisation).
    pub fn from_model(m: &vaporetto::Model) -> Result<Self, String> {
        let b = m.to_vec().map_err(|e| format!("to_vec: {e}"))?;
        let (s, n) = Self::from_bytes(&b)?;
        if n != b.len() {
            return Err("mirror decode left bytes".into());
        }
        Ok(s)
    }
}

/// Self-check: the mirror re-encodes the repository's model byte for byte and the real reader
/// accepts mirror bytes unchanged. A failure is a machinery error, not a verdict.
pub fn self_check() -> Result<(), String> {
    let path = "/repo/resources/model.bin";
    let b = std::fs::read(path).map_err(|e| format!("{path}: {e}"))?;
    let (spec, n) = ModelSpec::from_bytes(&b)?;
    if n != b.len() {
        return Err("resources/model.bin: trailing bytes after mirror decode".into());
    }
    if spec.to_bytes() != b {
        return Err("mirror does not re-encode resources/model.bin byte for byte (format drift)".into());
    }
    let m = spec.to_model()?;
    if m.to_vec().map_err(|e| e.to_string())? != b {
        return Err("Model::to_vec(read_slice(mirror bytes)) differs from mirror bytes".into());
    }
    Ok(())
}
