//! C02 — tokens are a lossless, ordered partition of the text.
//! Engine E1: every label vector in {N, W, U}^(n-1), two text shapes, tags on every character.

use crate::gen;
use crate::obs::{label, tokenized_of, tokens_of};
use crate::refmodel::*;
use crate::report::*;
use rayon::prelude::*;
use serde_json::{json, Value};
use vaporetto::Sentence;

const SHAPES: [&[char]; 2] = [&['a', 'b', 'c', 'd', 'e', 'f', 'g', 'h', 'i', 'j', 'k', 'l'], &['a', 'é', 'あ', '𠀋', ' ', '/', '\\', 'ア', '1', '亜', 'ｂ', '😀']];

fn build(shape: usize, labels: &[u8], n_tags: usize) -> (Vec<char>, Vec<Option<String>>) {
    let n = labels.len() + 1;
    let text: Vec<char> = (0..n).map(|i| SHAPES[shape][i % SHAPES[shape].len()]).collect();
    // a distinct tag on every character slot, so a wrong Token::tags() slice is visible
    let tags: Vec<Option<String>> = (0..n * n_tags).map(|k| if k % 5 == 3 { None } else { Some(format!("t{}/{}", k / n_tags, k % n_tags)) }).collect();
    (text, tags)
}

/// `shape` = text shape (0/1) + 2 x origin of the sentence object: 0 = from_raw; 1 = from_raw, then
/// predicted and tagged by a tag-predicting predictor before the labels are written (the sentence
/// keeps a link to that predictor); 2 = a sentence that held another tokenized, tagged text and was
/// then given this one with update_raw.
pub fn check_case(shape: usize, labels: &[u8], n_tags: usize) -> Option<(String, String)> {
    let (text, tags) = build(shape % 2, labels, n_tags);
    check_built(shape / 2, text, tags, labels, n_tags)
}

/// The same check on an explicitly given text (tags as `build` makes them).
pub fn check_text(origin: usize, text: &[char], labels: &[u8], n_tags: usize) -> Option<(String, String)> {
    let n = text.len();
    let tags: Vec<Option<String>> = (0..n * n_tags).map(|k| if k % 5 == 3 { None } else { Some(format!("t{}/{}", k / n_tags, k % n_tags)) }).collect();
    check_built(origin, text.to_vec(), tags, labels, n_tags)
}

fn check_built(origin: usize, text: Vec<char>, tags: Vec<Option<String>>, labels: &[u8], n_tags: usize) -> Option<(String, String)> {
    let t: String = text.iter().collect();
    let made = guard(|| {
        let mut s = match origin {
            2 => {
                let mut s = Sentence::from_tokenized("q/T1/T2 rr/U1/U2 s/V1/V2 ttt/W1/W2 u/X1/X2 v/Y1/Y2 w/Z1/Z2 xyz/A1/A2").expect("prior line");
                s.update_raw(t.clone()).expect("update_raw");
                s
            }
            _ => Sentence::from_raw(t.clone()).expect("from_raw"),
        };
        if origin == 1 {
            crate::c06::other_predictor(labels.len()).predict(&mut s);
            s.fill_tags();
        }
        for (b, &l) in s.boundaries_mut().iter_mut().zip(labels) {
            *b = label(l);
        }
        s.reset_tags(n_tags);
        for (slot, t) in s.tags_mut().iter_mut().zip(&tags) {
            *slot = t.clone().map(|t| t.into());
        }
        (tokens_of(&s), tokenized_of(&s))
    });
    let (toks, written) = match made {
        Err(p) => return Some(("setup-panic".into(), format!("building the sentence panicked: {p}"))),
        Ok(x) => x,
    };
    let want: Vec<(usize, usize, String, Vec<Option<String>>)> = ref_tokens(labels)
        .into_iter()
        .map(|(s, e)| (s, e, text[s..e].iter().collect(), tags[(e - 1) * n_tags..e * n_tags].to_vec()))
        .collect();
    match toks {
        Err(p) => return Some(("iter-panic".into(), format!("iter_tokens panicked: {p}"))),
        Ok(got) => {
            if got != want {
                let g: Vec<_> = got.iter().map(|t| (t.0, t.1)).collect();
                let w: Vec<_> = want.iter().map(|t| (t.0, t.1)).collect();
                if g != w {
                    return Some(("spans".into(), format!("token spans {g:?} != reference {w:?}")));
                }
                return Some(("token-content".into(), format!("tokens {got:?} != reference {want:?}")));
            }
            // partition laws for fully labelled sentences
            if !labels.contains(&UNKNOWN) {
                let n = labels.len() + 1;
                let mut pos = 0;
                let mut cat = String::new();
                for t in &got {
                    if t.0 != pos || t.1 <= t.0 {
                        return Some(("partition".into(), format!("tokens not contiguous/non-empty: {got:?}")));
                    }
                    pos = t.1;
                    cat.push_str(&t.2);
                }
                if pos != n || cat != t {
                    return Some(("partition".into(), format!("tokens do not cover the text: {got:?}")));
                }
            }
        }
    }
    let want_w = ref_write_tokenized(&text, labels, n_tags, &tags);
    match written {
        Err(p) => Some(("write-panic".into(), format!("write_tokenized_text panicked: {p}"))),
        Ok(w) if w != want_w => Some(("write".into(), format!("written {w:?} != reference {want_w:?}"))),
        Ok(_) => None,
    }
}

fn lab(labels: &[u8]) -> String {
    labels.iter().map(|&l| ['N', 'W', 'U'][l as usize]).collect()
}

pub fn replay(case: &Value) -> Option<(String, String)> {
    if let Some(t) = case["text"].as_str() {
        let text: Vec<char> = t.chars().collect();
        let labels: Vec<u8> = case["labels"].as_str()?.chars().map(|c| "NWU".find(c).unwrap() as u8).collect();
        let (origin, n_tags) = (case["origin"].as_u64()? as usize, case["n_tags"].as_u64()? as usize);
        return check_text(origin, &text, &labels, n_tags).map(|(k, w)| (format!("{k} text={t:?} labels={} origin={origin} n_tags={n_tags}", lab(&labels)), w));
    }
    let shape = case["shape"].as_u64()? as usize;
    let n_tags = case["n_tags"].as_u64()? as usize;
    let labels: Vec<u8> = case["labels"].as_str()?.chars().map(|c| "NWU".find(c).unwrap() as u8).collect();
    if case["short"] == true {
        return check_case(shape, &labels, n_tags).map(|(k, w)| (format!("{k} labels=len{}hash{:x} shape={shape} n_tags={n_tags}", labels.len(), gen::mix(labels.iter().fold(7u64, |a, &b| gen::mix(a ^ b as u64)))), w.chars().take(400).collect()));
    }
    check_case(shape, &labels, n_tags).map(|(k, w)| (format!("{k} labels={} shape={shape} n_tags={n_tags}", lab(&labels)), w))
}

pub fn run(tier: Tier) -> ! {
    let chk = Check::new("C02", tier, "exploration");
    quiet_panics();
    let max_n = tier.pick(11, 15);
    for n in 1..=max_n {
        let vs = gen::vectors(3, n - 1);
        vs.par_iter().for_each(|labels| {
            for shape in 0..6 {
                for n_tags in [0usize, 2] {
                    chk.eval(1);
                    // non-trivial: at least one segment is skipped because it contains an unknown boundary
                    let toks = ref_tokens(labels);
                    let covered: usize = toks.iter().map(|t| t.1 - t.0).sum();
                    if covered < n || toks.len() > 1 {
                        chk.nontrivial(1);
                    }
                    if let Some((k, what)) = check_case(shape, labels, n_tags) {
                        chk.violation(
                            format!("{k} labels={} shape={shape} n_tags={n_tags}", lab(labels)),
                            what,
                            json!({"shape": shape, "labels": lab(labels), "n_tags": n_tags}),
                        );
                    }
                }
            }
        });
        if n == 5 {
            chk.sample(json!({"labels": "WUNW", "shape": 1, "n_tags": 2, "expected_tokens": format!("{:?}", ref_tokens(&[1, 2, 0, 1]))}));
        }
    }
    // long sentences (40 and 120 characters): periodic label patterns of every period-3 and period-4 word
    // ... and lengths around the sizes at which an index type, a chunk or a buffer could change (u8, 1 KiB; thorough
    // also 4 KiB and u16), period 3 only above 300
    let long_ns: Vec<usize> = tier.pick(vec![40usize, 120, 255, 256, 257, 1025], vec![40, 120, 255, 256, 257, 1025, 4097, 65535, 65536, 65537]);
    chk.set("long_sentence_lengths", json!(long_ns));
    for n in long_ns {
        for period in [3usize, 4] {
            if n > 300 && period == 4 {
                continue;
            }
            for pat in gen::vectors(3, period) {
                let labels: Vec<u8> = (0..n - 1).map(|i| pat[i % period]).collect();
                for shape in 0..6 {
                    for n_tags in [0usize, 2] {
                        chk.eval(1);
                        chk.nontrivial(1);
                        if let Some((k, what)) = check_case(shape, &labels, n_tags) {
                            chk.violation(format!("{k} labels={} shape={shape} n_tags={n_tags}", lab(&labels)), what, json!({"shape": shape, "labels": lab(&labels), "n_tags": n_tags}));
                        }
                    }
                }
            }
        }
    }
    // scrambled (fixed pseudo-random) label vectors at the threshold lengths: runs of skipped segments and of
    // tokens of every small length in every order, which no periodic vector gives; plus long runs of one
    // label between two tokens (run lengths around 64, 128, 256)
    {
        let mut vs: Vec<Vec<u8>> = vec![];
        for &n in &tier.pick(vec![257usize, 1025], vec![257, 1025, 4097, 65537]) {
            for salt in 0..3u64 {
                vs.push((0..n - 1).map(|i| (gen::mix(i as u64 ^ salt << 40) % 3) as u8).collect());
                // biased: mostly unknown / mostly non-boundary with rare word boundaries
                vs.push((0..n - 1).map(|i| { let h = gen::mix(i as u64 ^ salt << 41) % 16; if h == 0 { 1 } else if h < 9 { 2 } else { 0 } }).collect());
            }
        }
        for run in [62usize, 63, 64, 65, 127, 128, 129, 255, 256, 257] {
            for fill in [0u8, 2] {
                for period in [1usize, 2, 3] {
                    // W N..N|U..U (fill every `period`-th position, else W) W N W
                    let mut v = vec![0u8, 1];
                    v.extend((0..run).map(|i| if i % period == 0 { fill } else { 1 }));
                    v.extend([1, 0, 1, 2, 1, 0]);
                    vs.push(v);
                }
            }
        }
        chk.set("scrambled_and_run_label_vectors", json!(vs.len()));
        vs.par_iter().for_each(|labels| {
            for shape in 0..6 {
                for n_tags in [0usize, 2] {
                    chk.eval(1);
                    chk.nontrivial(1);
                    if let Some((k, what)) = check_case(shape, labels, n_tags) {
                        let what: String = what.chars().take(400).collect();
                        chk.violation(format!("{k} labels=len{}hash{:x} shape={shape} n_tags={n_tags}", labels.len(), gen::mix(labels.iter().fold(7u64, |a, &b| gen::mix(a ^ b as u64)))), what, json!({"shape": shape, "labels": lab(labels), "n_tags": n_tags, "short": true}));
                    }
                }
            }
        });
    }
    // every MIX of character widths: all texts up to 4 / 5 characters over one 1-, 2-, 3- and 4-byte character
    // (every coincidence between byte and character totals occurs, e.g. bytes = 3 x characters without every
    // character having three bytes) x every label vector x two origins
    {
        let texts = gen::strings(&['a', 'é', 'あ', '𠮷'], 1, tier.pick(4, 5));
        chk.set("width_mix_texts", json!(texts.len()));
        texts.par_iter().for_each(|text| {
            for labels in gen::vectors(3, text.len() - 1) {
                for origin in [0usize, 2] {
                    for n_tags in [0usize, 2] {
                        chk.eval(1);
                        chk.nontrivial(1);
                        if let Some((k, what)) = check_text(origin, text, &labels, n_tags) {
                            let t = gen::s(text);
                            chk.violation(format!("{k} text={t:?} labels={} origin={origin} n_tags={n_tags}", lab(&labels)), what, json!({"text": t, "labels": lab(&labels), "origin": origin, "n_tags": n_tags}));
                        }
                    }
                }
            }
        });
    }
    chk.sample(json!({"labels": "UWUWN", "shape": 0, "n_tags": 0, "expected_tokens": format!("{:?}", ref_tokens(&[2, 1, 2, 1, 0]))}));
    chk.set("max_chars", json!(max_n));
    chk.set("label_alphabet", json!("N (not a boundary), W (word boundary), U (unknown)"));
    chk.assume("sentences are built with from_raw + boundaries_mut + reset_tags + tags_mut (no annotation parser involved)");
    chk.finish(
        "every label vector in {N,W,U}^(n-1) for n = 1..max_chars x 2 text shapes (ASCII; 1-4-byte characters incl. the format's delimiters) x n_tags in {0,2}; non-trivial = more than one token or a skipped segment; distinct by construction",
        true,
        &replay,
    )
}
