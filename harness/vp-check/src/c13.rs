//! C13 — cargo feature flags change speed, never results.
//! One worker binary per feature set (built from /repo's working tree into its own target
//! directory) runs the same deterministic enumeration; every build must agree with the
//! reference model and hence with every other build, case by case.

use crate::gen;
use crate::mirror::ModelSpec;
use crate::refmodel::*;
use crate::report::*;
use serde_json::{json, Value};
use std::io::Write;
use std::process::Command;

const OPTIONAL: [&str; 4] = ["cache-type-score", "fix-weight-length", "charwise-pma", "tag-prediction"];
pub const FLAGS_DIR: &str = "/verif/target/flags";

#[derive(Clone, Debug)]
pub struct FeatureSet {
    pub name: String,
    pub features: Vec<String>,
    pub nightly: bool,
}

pub fn feature_sets(tier: Tier) -> Vec<FeatureSet> {
    let mk = |fs: Vec<&str>, nightly: bool| {
        let mut name = if fs.is_empty() { "alloc-only".to_string() } else { fs.join("+") };
        if nightly {
            name = format!("nightly-{name}");
        }
        FeatureSet { name, features: fs.into_iter().map(String::from).collect(), nightly }
    };
    let mut out = vec![];
    if tier == Tier::Quick {
        let all: Vec<&str> = std::iter::once("std").chain(OPTIONAL).collect();
        out.push(mk(all.clone(), false)); // default
        out.push(mk(vec![], false)); // alloc only
        for drop in OPTIONAL {
            out.push(mk(all.iter().copied().filter(|f| *f != drop).collect(), false));
        }
        // the only way to cover the SIMD code paths: one nightly build with everything on
        out.push(mk(vec!["std", "cache-type-score", "fix-weight-length", "charwise-pma", "tag-prediction", "portable-simd"], true));
    } else {
        for mask in 0..16u32 {
            for std in [false, true] {
                let mut fs: Vec<&str> = vec![];
                if std {
                    fs.push("std");
                }
                for (i, f) in OPTIONAL.iter().enumerate() {
                    if mask >> i & 1 == 1 {
                        fs.push(f);
                    }
                }
                out.push(mk(fs, false));
            }
        }
        // portable-simd needs nightly (core::simd is unstable); it implies fix-weight-length
        out.push(mk(vec!["std", "cache-type-score", "fix-weight-length", "charwise-pma", "tag-prediction", "portable-simd"], true));
        out.push(mk(vec!["portable-simd"], true));
    }
    out
}

fn build(fs: &FeatureSet) -> Result<String, String> {
    let dir = format!("{FLAGS_DIR}/{}", fs.name);
    let mut cmd = Command::new("cargo");
    if fs.nightly {
        cmd.arg("+nightly");
    }
    cmd.args(["build", "--release", "--offline", "-q", "--manifest-path", "/verif/harness/vp-flags/Cargo.toml", "--target-dir", &dir, "--no-default-features"]);
    if !fs.features.is_empty() {
        cmd.arg("--features").arg(fs.features.join(","));
    }
    cmd.env("CARGO_NET_OFFLINE", "true");
    let out = cmd.output().map_err(|e| format!("cargo: {e}"))?;
    if !out.status.success() {
        return Err(format!("feature set {} does not build:\n{}", fs.name, String::from_utf8_lossy(&out.stderr).lines().rev().take(25).collect::<Vec<_>>().into_iter().rev().collect::<Vec<_>>().join("\n")));
    }
    Ok(format!("{dir}/release/vp-flags"))
}

pub struct CaseSet {
    pub models: Vec<(String, ModelSpec)>,
    pub texts: Vec<Vec<char>>,
}

pub fn cases(tier: Tier) -> CaseSet {
    let mut models = vec![];
    for (name, fam) in crate::c01::families(Tier::Quick) {
        let step = match name {
            "F1-subsets" => tier.pick(9, 3),
            "F1b-threshold" => tier.pick(11, 5),
            "F2-suffix-chains" => tier.pick(5, 2),
            _ => tier.pick(5, 2),
        };
        for b in fam.into_iter().step_by(step) {
            models.push((b.desc, b.spec));
        }
    }
    for c in crate::c06::families(Tier::Quick).into_iter().step_by(tier.pick(9, 3)) {
        models.push((c.desc, c.spec));
    }
    for (d, spec) in crate::c01::edge_family() {
        models.push((d, spec));
    }
    // value-dependent layout choices: sparse long weight vectors, zero-pattern tag vectors, nested tag n-grams
    for (d, spec) in crate::c01::sparse_large_window_family() {
        models.push((d, spec));
    }
    for (d, spec) in crate::c06::zero_tag_family() {
        models.push((d, spec));
    }
    for (d, spec) in crate::c06::extreme_tag_family().into_iter().step_by(tier.pick(3, 1)) {
        models.push((d, spec));
    }
    for (d, spec) in crate::c06::nested_tag_family().into_iter().step_by(tier.pick(11, 3)) {
        models.push((d, spec));
    }
    for (d, spec) in crate::c01::cache_table_family() {
        models.push((d, spec));
    }
    for (d, spec) in crate::c01::leading_zero_family() {
        models.push((d, spec));
    }
    for (d, spec) in crate::c06::scale_tag_family(5000) {
        models.push((d, spec));
    }
    for (d, spec, _) in crate::c01::long_vector_family(Tier::Quick) {
        models.push((d, spec));
    }
    for b in crate::c01::nonbmp_family() {
        models.push((b.desc, b.spec));
    }
    for (d, spec) in crate::c01::many_entries_family(Tier::Quick) {
        models.push((d, spec));
    }
    let mut texts = gen::strings(&['a', 'b', 'あ', '𠀋'], 1, 4);
    // a few texts longer than twice the large windows (the far end of long weight vectors)
    texts.extend(crate::c01::long_window_texts().into_iter().take(3).map(|t| t.chars().collect::<Vec<char>>()));
    CaseSet { models, texts }
}

fn hex(b: &[u8]) -> String {
    b.iter().map(|x| format!("{x:02x}")).collect()
}

/// Expected output line for (model, text) under a feature set.
fn expected(spec: &ModelSpec, text: &[char], with_tags: bool) -> String {
    let sc = ref_score(spec, text);
    let labels = ref_boundaries(&sc);
    let scores: Vec<String> = sc.iter().map(|x| x.to_string()).collect();
    let lab: String = labels.iter().map(|&b| char::from(b'0' + b)).collect();
    let (n_tags, tags) = if with_tags {
        match ref_tags(spec, text, &labels) {
            Some(rt) => (rt.n_tags, rt.tags.iter().map(|t| t.clone().unwrap_or("-".into())).collect::<Vec<_>>()),
            None => (0, vec![]),
        }
    } else {
        (0, vec![])
    };
    format!("S {}|{}|{}|{}", scores.join(","), lab, n_tags, tags.join(","))
}

pub fn replay(c: &Value) -> Option<(String, String)> {
    let fs = FeatureSet { name: c["set"].as_str()?.to_string(), features: serde_json::from_value(c["features"].clone()).ok()?, nightly: c["nightly"].as_bool()? };
    let spec: ModelSpec = serde_json::from_value(c["spec"].clone()).ok()?;
    let text = c["text"].as_str()?;
    let desc = c["desc"].as_str()?;
    let bin = build(&fs).unwrap_or_else(|e| machinery_error(&e));
    let _ = std::fs::create_dir_all(crate::c19::SCRATCH);
    let inp = format!("{}/c13-replay-in.txt", crate::c19::SCRATCH);
    let outp = format!("{}/c13-replay-out.txt", crate::c19::SCRATCH);
    std::fs::write(&inp, format!("M {}\nT {}\n", hex(&spec.to_bytes()), text)).ok()?;
    let with_tags = fs.features.iter().any(|f| f == "tag-prediction");
    let want = expected(&spec, &text.chars().collect::<Vec<_>>(), with_tags);
    // a broken build may depend on per-process state (hash seeds): give it several processes
    for _ in 0..24 {
        let st = Command::new(&bin).args([&inp, &outp]).status().ok()?;
        let got = std::fs::read_to_string(&outp).unwrap_or_default();
        let lines: Vec<&str> = got.lines().collect();
        if !st.success() || lines.len() != 2 || lines[0] != "M" || lines[1] != want {
            return Some((format!("differs set={} model={desc} text={text}", fs.name), format!("worker output {lines:?}, reference {want:?}")));
        }
    }
    None
}

pub fn run(tier: Tier) -> ! {
    let chk = Check::new("C13", tier, "exploration");
    quiet_panics();
    let sets = feature_sets(tier);
    let cs = cases(tier);
    let _ = std::fs::create_dir_all(crate::c19::SCRATCH);
    let inp = format!("{}/c13-input.txt", crate::c19::SCRATCH);
    {
        let mut f = std::io::BufWriter::new(std::fs::File::create(&inp).unwrap_or_else(|e| machinery_error(&format!("{inp}: {e}"))));
        for (_, spec) in &cs.models {
            writeln!(f, "M {}", hex(&spec.to_bytes())).unwrap();
            for t in &cs.texts {
                writeln!(f, "T {}", gen::s(t)).unwrap();
            }
        }
    }
    chk.set("feature_sets", json!(sets.iter().map(|s| s.name.clone()).collect::<Vec<_>>()));
    chk.set("models", json!(cs.models.len()));
    chk.set("texts", json!(cs.texts.len()));
    // builds in parallel (each has its own target directory)
    let bins: Vec<Result<String, String>> = std::thread::scope(|sc| {
        let hs: Vec<_> = sets.iter().map(|fs| sc.spawn(move || build(fs))).collect();
        hs.into_iter().map(|h| h.join().unwrap()).collect()
    });
    let mut not_checkable = vec![];
    for (fs, bin) in sets.iter().zip(&bins) {
        let bin = match bin {
            Ok(b) => b,
            Err(e) => {
                if fs.nightly {
                    // portable-simd depends on the installed nightly accepting core::simd as used
                    not_checkable.push(fs.name.clone());
                    continue;
                }
                machinery_error(e);
            }
        };
        let outp = format!("{}/c13-out-{}.txt", crate::c19::SCRATCH, fs.name);
        let st = Command::new(bin).args([&inp, &outp]).status();
        if !matches!(st, Ok(s) if s.success()) {
            chk.eval(1);
            chk.violation(format!("worker-crashed set={}", fs.name), format!("the worker built with [{}] died: {st:?}", fs.features.join(",")), json!({"set": fs.name, "features": fs.features, "nightly": fs.nightly, "desc": cs.models[0].0, "spec": cs.models[0].1, "text": "a"}));
            continue;
        }
        let got = std::fs::read_to_string(&outp).unwrap_or_default();
        let mut lines = got.lines();
        let with_tags = fs.features.iter().any(|f| f == "tag-prediction");
        for (desc, spec) in &cs.models {
            let head = lines.next().unwrap_or("");
            let ok = head == "M";
            for t in &cs.texts {
                let line = lines.next().unwrap_or("<missing>");
                chk.eval(1);
                let want = expected(spec, t, with_tags);
                if want.split('|').next().map_or(false, |s| s.contains(|c: char| c != 'S' && c != ' ' && c != '0' && c != ',')) {
                    chk.nontrivial(1);
                }
                if !ok || line != want {
                    chk.violation(
                        format!("differs set={} model={desc} text={}", fs.name, gen::s(t)),
                        format!("feature set [{}]: worker says {:?} / {line:?}, reference {want:?}", fs.features.join(","), head),
                        json!({"set": fs.name, "features": fs.features, "nightly": fs.nightly, "desc": desc, "spec": spec, "text": gen::s(t)}),
                    );
                }
            }
        }
        let _ = std::fs::remove_file(&outp);
    }
    chk.set("feature_sets_not_buildable_here", json!(not_checkable));
    chk.sample(json!({"feature_set": sets.last().map(|s| s.features.clone()), "model": cs.models.last().map(|m| m.0.clone()), "text": "aあb"}));
    chk.assume("all builds are compared with the same reference model, hence with each other, case by case");
    chk.assume("tags are compared only in builds with tag-prediction; no-std builds are driven through a std worker binary");
    chk.finish(
        "feature sets (quick: default, alloc-only, default minus each optional feature, default + portable-simd on nightly; thorough: all 16 subsets of {cache-type-score, fix-weight-length, charwise-pma, tag-prediction} x {std, no std} plus portable-simd on nightly) x sub-sampled C01 families F1/F1b/F2/F4 and C06 tag-model families x all texts up to 4 characters over {a,b,あ,𠀋}; every worker output line (scores, boundaries, tags) must equal the reference; non-trivial = some score differs from 0; distinct (feature set, model, text) by construction",
        true,
        &replay,
    )
}
