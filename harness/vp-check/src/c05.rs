//! C05 — sentence parsers are total and leave a consistent sentence.
//! Part 1 (E1): every string over a hostile alphabet through the three constructors and the
//! three updates (from two prior states). Part 2 (E2): BFS to fixpoint over histories.

use crate::bfs::{self, Mode, World};
use crate::obs::observe;
use crate::report::*;
use rayon::prelude::*;
use serde_json::{json, Value};
use vaporetto::Sentence;

const SIGMA: [char; 8] = ['a', 'あ', ' ', '/', '\\', '-', '|', '\0'];

fn rich_state(w: &World) -> Sentence<'static, '_> {
    let mut s = Sentence::from_tokenized("a/X b/Y/Z").expect("rich state");
    w.preds[1].p.predict(&mut s);
    s.fill_tags();
    s
}

/// kind 0..3: raw / tokenized / partial
pub fn totality_case(w: &World, kind: usize, x: &str) -> Vec<(String, String)> {
    totality_case_priors(w, kind, x, 0..2)
}

/// The sentence an update is applied to: 0 the default sentence, 1 a small predicted and tagged one, 2.. LARGE ones
/// (buffers of several KiB: 5000 one-byte characters; 2000 three-byte characters; 300 characters with 20 tag
/// slots each; a 1500-token tagged line; a 3000-character predicted and tagged sentence).
fn prior_state(w: &World, prior: usize) -> Sentence<'static, '_> {
    match prior {
        0 => Sentence::default(),
        1 => rich_state(w),
        2 => Sentence::from_raw("x".repeat(5000)).expect("prior 2"),
        3 => Sentence::from_raw("あ".repeat(2000)).expect("prior 3"),
        4 => {
            let mut s = Sentence::from_raw("ab".repeat(150)).expect("prior 4");
            s.reset_tags(20);
            s.tags_mut().iter_mut().for_each(|t| *t = Some("T".into()));
            s
        }
        5 => Sentence::from_tokenized(&"あ/t/u ".repeat(1500).trim_end().to_string()).expect("prior 5"),
        _ => {
            let mut s = Sentence::from_raw("ab あ".repeat(750)).expect("prior 6");
            w.preds[1].p.predict(&mut s);
            s.fill_tags();
            s
        }
    }
}

pub fn totality_case_priors(w: &World, kind: usize, x: &str, priors: std::ops::Range<usize>) -> Vec<(String, String)> {
    let mut out = vec![];
    let names = ["raw", "tokenized", "partial_annotation"];
    let cons = guard(|| match kind {
        0 => Sentence::from_raw(x.to_string()).ok().map(|s| observe(&s, false)),
        1 => Sentence::from_tokenized(x).ok().map(|s| observe(&s, false)),
        _ => Sentence::from_partial_annotation(x).ok().map(|s| observe(&s, false)),
    });
    let fresh = match cons {
        Err(p) => {
            out.push((format!("constructor-panic from_{}", names[kind]), format!("from_{}({x:?}) panicked: {p}", names[kind])));
            None
        }
        Ok(f) => Some(f),
    };
    // shape laws on the constructor's result: one character type per character, equal to the type
    // of that character whatever markup surrounded it; one boundary fewer than characters; no scores
    if let Some(Some(f)) = &fresh {
        let n = f.text.chars().count();
        if f.types.len() != n || f.text.chars().zip(&f.types).any(|(c, &t)| vaporetto::CharacterType::get_type(c) as u8 != t) {
            out.push((format!("shape-char-types from_{}", names[kind]), format!("from_{}({x:?}): character types {:?} do not describe the text {:?}", names[kind], f.types, f.text)));
        }
        if f.boundaries.len() + 1 != n || !f.scores.is_empty() {
            out.push((format!("shape-boundaries from_{}", names[kind]), format!("from_{}({x:?}): {} boundaries / {} scores for {n} characters", names[kind], f.boundaries.len(), f.scores.len())));
        }
    }
    for prior in priors {
        let r = guard(|| {
            let mut s = prior_state(w, prior);
            let ok = match kind {
                0 => s.update_raw(x.to_string()).is_ok(),
                1 => s.update_tokenized(x).is_ok(),
                _ => s.update_partial_annotation(x).is_ok(),
            };
            (ok, observe(&s, false))
        });
        match r {
            Err(p) => out.push((format!("update-panic update_{} prior={prior}", names[kind]), format!("update_{}({x:?}) panicked: {p}", names[kind]))),
            Ok((ok, got)) => {
                if let Some(fresh) = &fresh {
                    let want = if ok { fresh.clone() } else { Some(observe(&Sentence::default(), false)) };
                    if fresh.is_some() != ok {
                        out.push((format!("accept-mismatch update_{} prior={prior}", names[kind]), format!("update_{}({x:?}) ok={ok} but constructor ok={}", names[kind], fresh.is_some())));
                    } else if Some(&got) != want.as_ref() {
                        out.push((format!("update-differs update_{} prior={prior} ok={ok}", names[kind]), format!("after update_{}({x:?}) the sentence differs from {}: got {got:?} want {want:?}", names[kind], if ok { "the fresh constructor" } else { "the default sentence" })));
                    }
                }
                if got.tokens.is_err() || got.tokenized.is_err() || got.partial.is_err() || got.tags.len() != got.n_tags * got.text.chars().count() {
                    out.push((format!("unusable update_{} prior={prior}", names[kind]), format!("after update_{}({x:?}): accessors fail or tags.len != chars*n_tags: {got:?}", names[kind])));
                }
            }
        }
    }
    out
}

pub fn replay(case: &Value) -> Option<(String, String)> {
    if case["mode"] == "C05" {
        return bfs::replay_case(Mode::C05, case);
    }
    let w = World::new(Tier::Quick);
    let kind = case["kind"].as_u64()? as usize;
    let x = case["x"].as_str()?;
    let want = case["sig"].as_str()?;
    let lo = case["prior_lo"].as_u64().unwrap_or(0) as usize;
    let hi = case["prior_hi"].as_u64().unwrap_or(2) as usize;
    totality_case_priors(&w, kind, x, lo..hi).into_iter().find(|(s, _)| s == want)
}

pub fn run(tier: Tier) -> ! {
    let chk = Check::new("C05", tier, "model_checking");
    quiet_panics();
    let w = World::new(tier);
    // Part 1: totality over all strings
    let maxlen = tier.pick(5, 6);
    let mut strings = 0u64;
    for len in 0..=maxlen {
        let total = SIGMA.len().pow(len as u32);
        strings += total as u64;
        (0..total).into_par_iter().for_each(|mut idx| {
            let mut x = String::new();
            for _ in 0..len {
                x.push(SIGMA[idx % SIGMA.len()]);
                idx /= SIGMA.len();
            }
            for kind in 0..3 {
                chk.eval(3);
                chk.nontrivial(1);
                for (k, what) in totality_case(&w, kind, &x) {
                    // class-level signature; the first (shortest) failing string is kept as the case
                    chk.violation(k.clone(), what, json!({"mode": "totality", "kind": kind, "x": x, "sig": k}));
                }
            }
        });
    }
    // enriched alphabet at shorter length (low-byte look-alikes of the delimiters, non-ASCII
    // whitespace, control characters, every UTF-8 length)
    let enriched = ['a', ' ', '/', '\\', '-', '|', '\0', 'Ġ', 'į', 'Ŝ', 'ĭ', 'ż', '\u{3000}', '\t', '\n', 'é', 'あ', '𠀋'];
    let es = crate::gen::strings(&enriched, 0, tier.pick(3, 4));
    strings += es.len() as u64;
    es.par_iter().for_each(|x| {
        let x: String = x.iter().collect();
        for kind in 0..3 {
            chk.eval(3);
            chk.nontrivial(1);
            for (k, what) in totality_case(&w, kind, &x) {
                chk.violation(k.clone(), what, json!({"mode": "totality", "kind": kind, "x": x, "sig": k}));
            }
        }
    });
    // every Unicode scalar value (NUL included) alone, after an ordinary character, and after each delimiter
    {
        let all: Vec<char> = (0u32..=0x10FFFF).filter_map(char::from_u32).collect();
        chk.set("totality_all_scalar_values", json!(all.len()));
        all.par_iter().for_each(|&c| {
            let mut xs = vec![c.to_string(), format!("a{c}")];
            if tier == Tier::Thorough || (c as u32) < 0x3100 || (c as u32) % 5 == 0 {
                xs.extend([format!("a/{c}"), format!("a\\{c}"), format!("a-{c}"), format!("a {c}"), format!("{c}|a")]);
            }
            for x in xs {
                for kind in 0..3 {
                    chk.eval(3);
                    chk.nontrivial(1);
                    for (k, what) in totality_case(&w, kind, &x) {
                        chk.violation(k.clone(), what, json!({"mode": "totality", "kind": kind, "x": x, "sig": k}));
                    }
                }
            }
        });
    }
    // threshold sizes (255/256/257/1025; thorough also 4097 and 65535..65537): long well-formed lines of every
    // format (many tokens, one long token, many tags on one token / character, one long tag) and fixed scrambled
    // sequences over the hostile alphabet without NUL (mostly rejected half-way: the failure path at scale)
    {
        let sizes: Vec<usize> = tier.pick(vec![255usize, 256, 257, 1025], vec![255, 256, 257, 1025, 4097, 65535, 65536, 65537]);
        let mut xs: Vec<String> = vec![];
        let hostile: Vec<char> = SIGMA.iter().copied().filter(|&c| c != '\0').collect();
        for &n in &sizes {
            xs.push("a".repeat(n));
            xs.push("あ/t ".repeat(n).trim_end().to_string());
            xs.push(format!("ab{}", "/t".repeat(n)));
            xs.push(format!("ab{} c/u", "/t".repeat(n)));
            xs.push(format!("a/{}", "t".repeat(n)));
            xs.push("a-".repeat(n) + "a");
            xs.push("a|あ/t ".repeat(n) + "a");
            xs.push(format!("a{}|b", "/t".repeat(n)));
            xs.push("a\\ ".repeat(n));
            for salt in 0..3u64 {
                xs.push((0..n).map(|i| hostile[(crate::gen::mix(i as u64 ^ salt << 33) % hostile.len() as u64) as usize]).collect());
                // mostly letters, rare delimiters: long accepted prefixes before a rejection
                xs.push((0..n).map(|i| { let h = crate::gen::mix(i as u64 ^ salt << 35); if h % 9 == 0 { hostile[(h / 9 % hostile.len() as u64) as usize] } else { 'a' } }).collect());
            }
        }
        chk.set("totality_threshold_strings", json!(xs.len()));
        strings += xs.len() as u64;
        xs.par_iter().for_each(|x| {
            for kind in 0..3 {
                chk.eval(3);
                chk.nontrivial(1);
                for (k, what) in totality_case(&w, kind, x) {
                    let what: String = what.chars().take(300).collect();
                    chk.violation(k.clone(), what, json!({"mode": "totality", "kind": kind, "x": x, "sig": k}));
                }
            }
        });
    }
    // LARGE prior states: every string up to 2 characters over the hostile alphabet (accepted and rejected ones)
    // applied by every update_* to sentences that hold several KiB of text / tags / scores
    {
        let small = crate::gen::strings(&SIGMA, 0, 2);
        chk.set("totality_large_prior_strings", json!(small.len()));
        small.par_iter().for_each(|x| {
            let x: String = x.iter().collect();
            for kind in 0..3 {
                chk.eval(5);
                chk.nontrivial(5);
                for (k, what) in totality_case_priors(&w, kind, &x, 2..7) {
                    let what: String = what.chars().take(300).collect();
                    chk.violation(k.clone(), what, json!({"mode": "totality", "kind": kind, "x": x, "sig": k, "prior_lo": 2, "prior_hi": 7}));
                }
            }
        });
    }
    chk.set("totality_strings", json!(strings));
    chk.set("totality_alphabet", json!("a あ space / \\ - | NUL"));
    chk.set("totality_max_len", json!(maxlen));
    // Part 2: histories
    let r = bfs::search(&w, Mode::C05, &chk, tier.pick(400_000, 3_000_000));
    chk.set("states", json!(r.states));
    chk.set("transitions", json!(r.transitions));
    chk.set("traces_validated_against_impl", json!(r.transitions));
    chk.set("max_depth", json!(r.max_depth));
    chk.set("fixpoint_reached", json!(!r.capped));
    chk.set("states_per_depth", json!(r.per_depth));
    chk.set("distinct_observed_outcomes", json!(r.distinct_obs));
    chk.set("operation_alphabet", json!(w.ops.iter().map(|o| w.op_name(o)).collect::<Vec<_>>()));
    chk.nontrivial(r.states);
    chk.assume("state key = 128-bit hash of the full field snapshot (verif-hooks) + harness bookkeeping; a hash collision could merge two states (probability ~ states^2 / 2^128)");
    chk.assume("fill_tags after predict by a predict_tags=false predictor is a documented panic: that transition is disabled");
    chk.finish(
        "part 1: every string up to totality_max_len over the 8-letter hostile alphabet through from_*/update_* (two prior states); part 2: breadth-first search over all histories of one real Sentence under the operation alphabet until no new state appears; every transition is executed on the real object, update_* and reset_tags transitions are checked against the fresh constructor / default sentence / shape laws; non-trivial = distinct reachable states + distinct strings x parser",
        !r.capped,
        &replay,
    )
}
