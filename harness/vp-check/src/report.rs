//! Evidence writer, violation collector, known-findings matching, exit codes.
//!
//! exit 0: property held on everything explored (KNOWN-FINDING lines allowed)
//! exit 1: at least one `VIOLATION property=<id> replay=<path>` line
//! exit 2: MACHINERY-ERROR (harness problem; never a verdict)

use serde_json::{json, Map, Value};
use std::collections::BTreeMap;
use std::sync::atomic::{AtomicU64, Ordering};
use std::sync::Mutex;
use std::time::Instant;

pub const VERIF: &str = "/verif";

#[derive(Clone, Copy, PartialEq, Eq, Debug)]
pub enum Tier {
    Quick,
    Thorough,
}

impl Tier {
    pub fn name(self) -> &'static str {
        match self {
            Tier::Quick => "quick",
            Tier::Thorough => "thorough",
        }
    }
    pub fn pick<T>(self, q: T, t: T) -> T {
        match self {
            Tier::Quick => q,
            Tier::Thorough => t,
        }
    }
}

pub struct Violation {
    pub signature: String,
    pub what: String,
    pub case: Value,
    pub count: u64,
}

pub struct Check {
    pub id: String,
    pub tier: Tier,
    pub seed: u64,
    pub level: &'static str,
    start: Instant,
    evals: AtomicU64,
    nontrivial: AtomicU64,
    samples: Mutex<Vec<Value>>,
    viols: Mutex<BTreeMap<String, Violation>>,
    viol_total: AtomicU64,
    per_class: Mutex<BTreeMap<String, u64>>,
    extra: Mutex<Map<String, Value>>,
    assumptions: Mutex<Vec<String>>,
    pub max_samples: usize,
    /// the subject is inherently randomised (liblinear's rand(), hash order): a violation that was
    /// observed on the real code is reported even if a re-execution does not reproduce it
    pub randomised: std::sync::atomic::AtomicBool,
}

static VERDICT_FD: std::sync::atomic::AtomicI32 = std::sync::atomic::AtomicI32::new(1);

/// Writes one verdict line to the real stdout (even while fd 1 is muted).
pub fn say(line: &str) {
    let fd = VERDICT_FD.load(Ordering::SeqCst);
    let mut b = line.as_bytes().to_vec();
    b.push(b'\n');
    let mut off = 0;
    while off < b.len() {
        let n = unsafe { libc::write(fd, b[off..].as_ptr() as *const libc::c_void, b.len() - off) };
        if n <= 0 {
            break;
        }
        off += n as usize;
    }
}

/// liblinear (C++) prints its progress to stdout, which is where verdict lines go: point fd 1
/// at /dev/null for the rest of the process and keep a private duplicate for verdicts.
pub fn mute_stdout() {
    if VERDICT_FD.load(Ordering::SeqCst) != 1 {
        return; // already muted
    }
    unsafe {
        let saved = libc::dup(1);
        let null = libc::open(b"/dev/null\0".as_ptr() as *const libc::c_char, libc::O_WRONLY);
        if saved >= 0 && null >= 0 {
            libc::dup2(null, 1);
            libc::close(null);
            VERDICT_FD.store(saved, Ordering::SeqCst);
        }
    }
}

pub fn machinery_error(msg: &str) -> ! {
    say(&format!("MACHINERY-ERROR: {msg}"));
    eprintln!("MACHINERY-ERROR: {msg}");
    std::process::exit(2);
}

pub fn panic_msg(p: &Box<dyn std::any::Any + Send>) -> String {
    if let Some(s) = p.downcast_ref::<&str>() {
        s.to_string()
    } else if let Some(s) = p.downcast_ref::<String>() {
        s.clone()
    } else {
        "<non-string panic payload>".to_string()
    }
}

/// Runs `f`, turning an unwind into `Err(message)`.
pub fn guard<T>(f: impl FnOnce() -> T) -> Result<T, String> {
    std::panic::catch_unwind(std::panic::AssertUnwindSafe(f)).map_err(|p| panic_msg(&p))
}

/// C18 mode: this process is the instrumented (`checked` profile / sanitizer) re-execution of
/// another check's space; only precondition failures count.
pub fn c18_mode() -> Option<String> {
    std::env::var("VERIF_C18").ok().filter(|s| !s.is_empty())
}

const PRECOND_SUFFIX: &str = " (precondition-failure)";

pub fn is_precondition_failure(what: &str) -> bool {
    what.contains("assertion failed") || what.contains("unsafe precondition") || what.contains("invalid UTF-8") || what.contains("is_char_boundary")
}

pub fn quiet_panics() {
    if c18_mode().is_some() {
        // keep the first messages: a non-unwinding panic (library UB check) aborts the process and
        // its message is the only trace
        static N: AtomicU64 = AtomicU64::new(0);
        std::panic::set_hook(Box::new(|info| {
            let msg = info.to_string();
            if (msg.contains("unsafe precondition") || msg.contains("assertion failed")) && N.fetch_add(1, Ordering::Relaxed) < 20 {
                eprintln!("PANIC: {msg}");
            }
        }));
    } else {
        std::panic::set_hook(Box::new(|_| {}));
    }
}

fn fnv(s: &str) -> u64 {
    let mut h: u64 = 0xcbf29ce484222325;
    for b in s.bytes() {
        h ^= b as u64;
        h = h.wrapping_mul(0x100000001b3);
    }
    h
}

impl Check {
    pub fn new(id: &str, tier: Tier, level: &'static str) -> Self {
        let seed = std::env::var("VERIF_SEED").ok().and_then(|s| s.parse().ok()).unwrap_or(0);
        Self {
            id: id.to_string(),
            tier,
            seed,
            level,
            start: Instant::now(),
            evals: AtomicU64::new(0),
            nontrivial: AtomicU64::new(0),
            samples: Mutex::new(vec![]),
            viols: Mutex::new(BTreeMap::new()),
            viol_total: AtomicU64::new(0),
            per_class: Mutex::new(BTreeMap::new()),
            extra: Mutex::new(Map::new()),
            assumptions: Mutex::new(vec![]),
            max_samples: 8,
            randomised: std::sync::atomic::AtomicBool::new(false),
        }
    }

    #[inline]
    pub fn eval(&self, n: u64) {
        self.evals.fetch_add(n, Ordering::Relaxed);
    }
    #[inline]
    pub fn nontrivial(&self, n: u64) {
        self.nontrivial.fetch_add(n, Ordering::Relaxed);
    }
    pub fn evals(&self) -> u64 {
        self.evals.load(Ordering::Relaxed)
    }
    pub fn sample(&self, v: Value) {
        let mut s = self.samples.lock().unwrap();
        if s.len() < self.max_samples {
            s.push(v);
        }
    }
    pub fn want_sample(&self) -> bool {
        self.samples.lock().unwrap().len() < self.max_samples
    }
    pub fn set(&self, k: &str, v: Value) {
        self.extra.lock().unwrap().insert(k.to_string(), v);
    }
    pub fn add(&self, k: &str, n: u64) {
        let mut e = self.extra.lock().unwrap();
        let cur = e.get(k).and_then(|v| v.as_u64()).unwrap_or(0);
        e.insert(k.to_string(), json!(cur + n));
    }
    pub fn assume(&self, s: &str) {
        self.assumptions.lock().unwrap().push(s.to_string());
    }
    pub fn violation(&self, signature: String, what: String, case: Value) {
        self.viol_total.fetch_add(1, Ordering::Relaxed);
        // in C18 mode precondition failures must not be merged (and then filtered away) with
        // functional violations that happen to share a signature
        let signature = if c18_mode().is_some() && is_precondition_failure(&what) { format!("{signature}{PRECOND_SUFFIX}") } else { signature };
        let class: String = signature.split_whitespace().take(4).collect::<Vec<_>>().join(" ");
        let mut v = self.viols.lock().unwrap();
        if let Some(e) = v.get_mut(&signature) {
            e.count += 1;
            return;
        }
        // keep at most 100 signatures per class (first four words) and 5000 overall, so that one
        // prolific defect cannot crowd out a different one
        let mut pc = self.per_class.lock().unwrap();
        let n = pc.entry(class).or_insert(0);
        if *n < 100 && v.len() < 5000 {
            *n += 1;
            v.insert(signature.clone(), Violation { signature, what, case, count: 1 });
        }
    }
    pub fn n_violations(&self) -> u64 {
        self.viol_total.load(Ordering::Relaxed)
    }
    pub fn elapsed(&self) -> f64 {
        self.start.elapsed().as_secs_f64()
    }

    /// Writes the evidence file without printing verdict lines (the caller already printed them).
    pub fn write_evidence_only(self, rule: &str, violations: u64) {
        let mut cov = self.extra.into_inner().unwrap();
        cov.insert("evaluations".into(), json!(self.evals.load(Ordering::Relaxed)));
        cov.insert("distinct_nontrivial".into(), json!(self.nontrivial.load(Ordering::Relaxed)));
        cov.insert("rule".into(), json!(rule));
        cov.insert("samples".into(), Value::Array(self.samples.into_inner().unwrap()));
        cov.insert("exhaustive".into(), json!(false));
        let ev = json!({
            "property_id": self.id, "tier": self.tier.name(), "seed": self.seed, "level": self.level,
            "coverage": Value::Object(cov), "assumptions": self.assumptions.into_inner().unwrap(),
            "wall_s": self.start.elapsed().as_secs_f64(), "violations": violations,
        });
        let _ = std::fs::create_dir_all(format!("{VERIF}/evidence"));
        let _ = std::fs::write(format!("{VERIF}/evidence/{}.json", self.id), serde_json::to_string_pretty(&ev).unwrap() + "\n");
        say(&format!("{} {}: violations={violations}", self.id, self.tier.name()));
    }

    /// Writes evidence, prints verdict lines, exits.
    /// `replay`: re-executes a stored case and returns the (signature, what) it produces, if any.
    pub fn finish(
        self,
        rule: &str,
        exhaustive: bool,
        replay: &dyn Fn(&Value) -> Option<(String, String)>,
    ) -> ! {
        let c18 = c18_mode();
        let report_id = if c18.is_some() { "C18".to_string() } else { self.id.clone() };
        let known = load_known(&report_id);
        let mut viols = self.viols.into_inner().unwrap();
        let mut functional_ignored = 0u64;
        if c18.is_some() {
            // only precondition failures are C18's business; functional mismatches belong to the
            // property whose space is being re-executed
            let before: u64 = viols.values().map(|v| v.count).sum();
            viols.retain(|_, v| is_precondition_failure(&v.what));
            let after: u64 = viols.values().map(|v| v.count).sum();
            functional_ignored = before - after;
        }
        let mut lines = vec![];
        let mut n_unknown = 0u64;
        let mut n_known = 0u64;
        let _ = std::fs::create_dir_all(format!("{VERIF}/replays"));
        let mut printed = 0;
        // simplest (shortest signature) first
        let mut order: Vec<(&String, &Violation)> = viols.iter().collect();
        order.sort_by_key(|(s, _)| (s.chars().count(), (*s).clone()));
        // round-robin over violation kinds (first word), so every kind gets printed
        {
            let mut rank: BTreeMap<String, usize> = BTreeMap::new();
            let mut keyed: Vec<(usize, usize, (&String, &Violation))> = vec![];
            for (i, (s, v)) in order.iter().enumerate() {
                let kind = s.split_whitespace().next().unwrap_or("").to_string();
                let r = rank.entry(kind).or_insert(0);
                keyed.push((*r, i, (*s, *v)));
                *r += 1;
            }
            keyed.sort_by_key(|(r, i, _)| (*r, *i));
            order = keyed.into_iter().map(|(_, _, x)| x).collect();
        }
        for (sig, v) in order {
            if let Some(k) = known.iter().find(|k| k.matches(sig)) {
                n_known += v.count;
                lines.push(format!("KNOWN-FINDING: property={} {} [{}] ({} cases)", report_id, k.what, sig, v.count));
                continue;
            }
            n_unknown += v.count;
            if printed >= 25 {
                continue;
            }
            // confirm by replay before printing
            let case = json!({"property": self.id, "reported_as": report_id, "profile": c18.clone().unwrap_or_else(|| "release".into()), "signature": sig, "what": v.what, "case": v.case});
            let noreplay = v.case["noreplay"] == true;
            match if noreplay { Ok(Some((sig.clone(), String::new()))) } else { guard(|| replay(&v.case)) } {
                Ok(Some((s2, _))) if &s2 == sig || format!("{s2}{PRECOND_SUFFIX}") == *sig => {}
                Ok(other) => {
                    if self.randomised.load(Ordering::Relaxed) {
                        lines.push(format!("  note: [{sig}] was observed in this run but not reproduced by re-execution (randomised subject); reported as observed"));
                    } else {
                        machinery_error(&format!("replay of violation [{sig}] diverged: got {:?}", other.map(|x| x.0)))
                    }
                }
                Err(p) => machinery_error(&format!("replay of violation [{sig}] panicked in the harness: {p}")),
            }
            let path = if c18.is_some() { format!("{VERIF}/replays/C18-{}-{:016x}.json", self.id, fnv(sig)) } else { format!("{VERIF}/replays/{}-{:016x}.json", self.id, fnv(sig)) };
            if let Err(e) = std::fs::write(&path, serde_json::to_string_pretty(&case).unwrap()) {
                machinery_error(&format!("cannot write {path}: {e}"));
            }
            lines.push(format!("VIOLATION property={} replay={}", report_id, path));
            lines.push(format!("  what: {} [{}] ({} cases)", v.what, sig, v.count));
            printed += 1;
        }
        if !viols.is_empty() {
            // histogram of violation classes (first four words of the signature), for triage
            let mut classes: BTreeMap<String, u64> = BTreeMap::new();
            for (sig, v) in &viols {
                let c: Vec<&str> = sig.split_whitespace().take(4).collect();
                *classes.entry(c.join(" ")).or_insert(0) += v.count;
            }
            for (c, n) in classes.iter().take(40) {
                eprintln!("  class: {c}  x{n}");
            }
        }
        let n_unknown = if n_unknown > 0 && c18.is_none() { n_unknown.max(self.viol_total.load(Ordering::Relaxed).saturating_sub(n_known)) } else { n_unknown };
        let wall = self.start.elapsed().as_secs_f64();
        let mut cov = self.extra.into_inner().unwrap();
        let evals = self.evals.load(Ordering::Relaxed);
        let nontrivial = self.nontrivial.load(Ordering::Relaxed);
        cov.insert("evaluations".into(), json!(evals));
        cov.insert("distinct_nontrivial".into(), json!(nontrivial));
        cov.insert("rule".into(), json!(rule));
        cov.insert("samples".into(), Value::Array(self.samples.into_inner().unwrap()));
        cov.insert("exhaustive".into(), json!(exhaustive));
        cov.insert("distinct_violation_signatures".into(), json!(viols.len()));
        cov.insert("known_finding_cases".into(), json!(n_known));
        if c18.is_some() {
            cov.insert("functional_violations_ignored_in_c18_mode".into(), json!(functional_ignored));
        }
        let ev = json!({
            "property_id": self.id,
            "tier": self.tier.name(),
            "seed": self.seed,
            "level": self.level,
            "coverage": Value::Object(cov),
            "assumptions": self.assumptions.into_inner().unwrap(),
            "wall_s": wall,
            "violations": n_unknown,
        });
        let evdir = if c18.is_some() { format!("{VERIF}/target/c18") } else { format!("{VERIF}/evidence") };
        let _ = std::fs::create_dir_all(&evdir);
        let path = format!("{evdir}/{}.json", self.id);
        if let Err(e) = std::fs::write(&path, serde_json::to_string_pretty(&ev).unwrap() + "\n") {
            machinery_error(&format!("cannot write {path}: {e}"));
        }
        for l in &lines {
            say(l);
        }
        say(&format!(
            "{} {}: evaluations={} nontrivial={} violations={} known={} wall={:.1}s",
            self.id,
            self.tier.name(),
            evals,
            nontrivial,
            n_unknown,
            n_known,
            wall
        ));
        if evals == 0 || nontrivial < 2 {
            machinery_error("vacuous run: no evaluations / no non-trivial cases");
        }
        std::process::exit(if n_unknown > 0 { 1 } else { 0 });
    }
}

pub struct Known {
    pub signature: String,
    pub prefix: bool,
    pub what: String,
}

impl Known {
    fn matches(&self, sig: &str) -> bool {
        if self.prefix {
            sig.starts_with(&self.signature)
        } else {
            sig == self.signature
        }
    }
}

/// Reads /verif/known_findings.json (committed; never written at run time). Only entries with
/// status "known" suppress; "fixed" entries suppress nothing.
pub fn load_known(id: &str) -> Vec<Known> {
    let path = format!("{VERIF}/known_findings.json");
    let Ok(s) = std::fs::read_to_string(&path) else { return vec![] };
    let v: Value = match serde_json::from_str(&s) {
        Ok(v) => v,
        Err(e) => machinery_error(&format!("{path}: {e}")),
    };
    let mut out = vec![];
    for f in v["findings"].as_array().cloned().unwrap_or_default() {
        if f["status"] == "known" && f["property"] == id {
            out.push(Known {
                signature: f["signature"].as_str().unwrap_or("").to_string(),
                prefix: f["match"] == "prefix",
                what: f["what"].as_str().unwrap_or("").to_string(),
            });
        }
    }
    out
}
