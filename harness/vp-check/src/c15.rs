//! C15 — post-filters apply exactly their rule and nothing else. Engine E1.

use crate::gen;
use crate::obs::label;
use crate::refmodel::*;
use crate::report::*;
use rayon::prelude::*;
use serde_json::{json, Value};
use unicode_segmentation::UnicodeSegmentation;
use vaporetto::{CharacterType, Sentence};
use vaporetto_rules::sentence_filters::{ConcatGraphemeClustersFilter, KyteaWsConstFilter, PatternMatchTagger, SplitLinebreaksFilter};
use vaporetto_rules::SentenceFilter;

const TYPES: [CharacterType; 6] = [CharacterType::Digit, CharacterType::Roman, CharacterType::Hiragana, CharacterType::Katakana, CharacterType::Kanji, CharacterType::Other];

type Snap = (String, Vec<u8>, Vec<u8>, usize, Vec<Option<String>>);

fn snap(s: &Sentence) -> Snap {
    (
        s.as_raw_text().to_string(),
        s.char_types().to_vec(),
        s.boundaries().iter().map(|&b| b as u8).collect(),
        s.n_tags(),
        s.tags().iter().map(|t| t.as_ref().map(|t| t.to_string())).collect(),
    )
}

fn make(text: &[char], labels: &[u8], n_tags: usize, tags: &[Option<String>]) -> Sentence<'static, 'static> {
    let mut s = Sentence::from_raw(gen::s(text)).expect("from_raw");
    for (b, &l) in s.boundaries_mut().iter_mut().zip(labels) {
        *b = label(l);
    }
    s.reset_tags(n_tags);
    for (slot, t) in s.tags_mut().iter_mut().zip(tags) {
        *slot = t.clone().map(|t| t.into());
    }
    s
}

/// filter ids: 0..6 wsconst(type), 6 split-linebreaks, 7 concat-graphemes
fn boundary_filter(id: usize) -> Box<dyn SentenceFilter> {
    match id {
        0..=5 => Box::new(KyteaWsConstFilter::new(TYPES[id])),
        6 => Box::new(SplitLinebreaksFilter),
        _ => Box::new(ConcatGraphemeClustersFilter),
    }
}

fn expected_boundaries(id: usize, text: &[char], labels: &[u8]) -> Vec<u8> {
    let mut out = labels.to_vec();
    match id {
        0..=5 => {
            let t = TYPES[id] as u8;
            for i in 0..labels.len() {
                if ctype(text[i]) == t && ctype(text[i + 1]) == t {
                    out[i] = NOT_WORD;
                }
            }
        }
        6 => {
            for i in 0..labels.len() {
                if matches!(text[i], '\r' | '\n') || matches!(text[i + 1], '\r' | '\n') {
                    out[i] = WORD;
                }
            }
        }
        _ => {
            // trusted definition: extended grapheme clusters of the WHOLE string
            let s: String = text.iter().collect();
            let mut pos = 0;
            for g in s.graphemes(true) {
                let n = g.chars().count();
                for i in pos..pos + n - 1 {
                    out[i] = NOT_WORD;
                }
                pos += n;
            }
        }
    }
    out
}

pub fn check_boundary_filter(id: usize, text: &[char], labels: &[u8], n_tags: usize, tags: &[Option<String>]) -> Option<(String, String)> {
    let r = guard(|| {
        let f = boundary_filter(id);
        let mut s = make(text, labels, n_tags, tags);
        let before = snap(&s);
        f.filter(&mut s);
        let once = snap(&s);
        f.filter(&mut s);
        (before, once, snap(&s))
    });
    let (before, once, twice) = match r {
        Err(p) => return Some(("panic".into(), format!("filter panicked: {p}"))),
        Ok(x) => x,
    };
    if once.0 != before.0 || once.1 != before.1 {
        return Some(("text-or-types-changed".into(), format!("before {before:?} after {once:?}")));
    }
    if once.3 != before.3 || once.4 != before.4 {
        return Some(("tags-changed".into(), format!("before {before:?} after {once:?}")));
    }
    let want = expected_boundaries(id, text, labels);
    if once.2 != want {
        return Some(("boundaries".into(), format!("boundaries {:?} -> {:?}, rule says {:?}", labels, once.2, want)));
    }
    if twice != once {
        return Some(("not-idempotent".into(), format!("second application changed {once:?} into {twice:?}")));
    }
    None
}

pub fn check_tagger(rules: &[(String, Vec<Option<String>>)], text: &[char], labels: &[u8], n_tags: usize, tags: &[Option<String>]) -> Option<(String, String)> {
    let r = guard(|| {
        let mut m = hashbrown::HashMap::new();
        for (k, v) in rules {
            m.insert(k.clone(), v.clone());
        }
        let f = PatternMatchTagger::new(m);
        let mut s = make(text, labels, n_tags, tags);
        let before = snap(&s);
        f.filter(&mut s);
        let once = snap(&s);
        f.filter(&mut s);
        (before, once, snap(&s))
    });
    let (before, once, twice) = match r {
        Err(p) => return Some(("panic".into(), format!("tagger panicked: {p}"))),
        Ok(x) => x,
    };
    if once.0 != before.0 || once.1 != before.1 || once.2 != before.2 || once.3 != before.3 {
        return Some(("tagger-changed-other-fields".into(), format!("before {before:?} after {once:?}")));
    }
    let mut want = tags.to_vec();
    for (s, e) in ref_tokens(labels) {
        let surf: String = text[s..e].iter().collect();
        if let Some((_, rule)) = rules.iter().find(|(k, _)| *k == surf) {
            for j in 0..n_tags {
                let slot = &mut want[(e - 1) * n_tags + j];
                if slot.is_none() {
                    *slot = rule.get(j).cloned().flatten();
                }
            }
        }
    }
    if once.4 != want {
        return Some(("tagger-tags".into(), format!("tags {tags:?} -> {:?}, rule says {want:?}", once.4)));
    }
    if twice != once {
        return Some(("tagger-not-idempotent".into(), format!("second application changed {once:?} into {twice:?}")));
    }
    None
}

fn tags_for(n: usize, n_tags: usize, pattern: u8) -> Vec<Option<String>> {
    (0..n * n_tags)
        .map(|k| match pattern {
            0 => None,
            1 => Some(format!("T{k}")),
            _ => {
                if k % 2 == 0 {
                    Some(format!("T{k}"))
                } else {
                    None
                }
            }
        })
        .collect()
}

fn lab(l: &[u8]) -> String {
    l.iter().map(|&l| ['N', 'W', 'U'][l as usize]).collect()
}

pub fn replay(c: &Value) -> Option<(String, String)> {
    let text: Vec<char> = c["text"].as_str()?.chars().collect();
    let labels: Vec<u8> = serde_json::from_value(c["labels"].clone()).ok()?;
    let n_tags = c["n_tags"].as_u64()? as usize;
    let pattern = c["pattern"].as_u64()? as u8;
    let tags = tags_for(text.len(), n_tags, pattern);
    if c["kind"] == "tagger" {
        let rules: Vec<(String, Vec<Option<String>>)> = serde_json::from_value(c["rules"].clone()).ok()?;
        check_tagger(&rules, &text, &labels, n_tags, &tags).map(|(k, w)| (format!("{k} rules={rules:?} text={:?} labels={} n_tags={n_tags} pattern={pattern}", gen::s(&text), lab(&labels)), w))
    } else {
        let id = c["filter"].as_u64()? as usize;
        if let Some(l) = c["label"].as_str() {
            return check_boundary_filter(id, &text, &labels, n_tags, &tags).map(|(k, w)| (format!("{k} filter={id} {l}"), w.chars().take(400).collect()));
        }
        check_boundary_filter(id, &text, &labels, n_tags, &tags).map(|(k, w)| (format!("{k} filter={id} text={:?} labels={} n_tags={n_tags}", gen::s(&text), lab(&labels)), w))
    }
}

pub fn run(tier: Tier) -> ! {
    let chk = Check::new("C15", tier, "exploration");
    quiet_panics();
    let sigma = ['a', '1', 'あ', 'ア', '亜', '.', '\r', '\n', '\u{200d}', '👨', '🇯', '\u{301}', '🏽'];
    let maxlen = tier.pick(4, 5);
    let texts = gen::strings(&sigma, 1, maxlen);
    chk.set("texts", json!(texts.len()));
    texts.par_iter().for_each(|text| {
        let n = text.len();
        let label_sets: Vec<Vec<u8>> = if n <= 4 {
            gen::vectors(3, n - 1)
        } else {
            // the three constant vectors and all single deviations
            let mut v = vec![];
            for base in 0..3u8 {
                v.push(vec![base; n - 1]);
                for i in 0..n - 1 {
                    for d in 0..3u8 {
                        if d != base {
                            let mut x = vec![base; n - 1];
                            x[i] = d;
                            v.push(x);
                        }
                    }
                }
            }
            v
        };
        for labels in &label_sets {
            for id in 0..8 {
                let (n_tags, pattern) = [(0usize, 0u8), (1, 2), (2, 1)][(id + labels.len()) % 3];
                let tags = tags_for(n, n_tags, pattern);
                chk.eval(1);
                if expected_boundaries(id, text, labels) != *labels {
                    chk.nontrivial(1);
                }
                if let Some((k, what)) = check_boundary_filter(id, text, labels, n_tags, &tags) {
                    chk.violation(
                        format!("{k} filter={id} text={:?} labels={} n_tags={n_tags}", gen::s(text), lab(labels)),
                        what,
                        json!({"kind": "boundary", "filter": id, "text": gen::s(text), "labels": labels, "n_tags": n_tags, "pattern": pattern}),
                    );
                }
            }
        }
    });
    // long texts (30 and 64 characters) built from rotations of the alphabet, with periodic labels
    {
        let mut long_cases = vec![];
        for rot in 0..sigma.len() {
            // ... and threshold lengths (u8, 1 KiB; thorough also 4 KiB and u16) for three rotations
            let lens: Vec<usize> = if rot % 5 == 0 { tier.pick(vec![30usize, 64, 255, 256, 257, 1025], vec![30, 64, 255, 256, 257, 1025, 4097, 65535, 65537]) } else { vec![30, 64] };
            for len in lens {
                // rotation 0 is replaced by a fixed scrambled sequence above 64 characters (every adjacent pair occurs)
                let text: Vec<char> = if rot == 0 && len > 64 { (0..len).map(|i| sigma[(gen::mix(i as u64) % sigma.len() as u64) as usize]).collect() } else { (0..len).map(|i| sigma[(i * (rot + 1) + rot) % sigma.len()]).collect() };
                for pat in gen::vectors(3, 2) {
                    let labels: Vec<u8> = (0..len - 1).map(|i| pat[i % 2]).collect();
                    long_cases.push((text.clone(), labels));
                }
            }
        }
        long_cases.par_iter().for_each(|(text, labels)| {
            for id in 0..8 {
                let tags = tags_for(text.len(), 2, 2);
                chk.eval(1);
                chk.nontrivial(1);
                if let Some((k, what)) = check_boundary_filter(id, text, labels, 2, &tags) {
                    chk.violation(format!("{k} filter={id} text={:?} labels={} n_tags=2", gen::s(text), lab(labels)), what, json!({"kind": "boundary", "filter": id, "text": gen::s(text), "labels": labels, "n_tags": 2, "pattern": 2}));
                }
            }
        });
    }
    // gap family: two pairs of a target character separated by 0..=70 filler characters, at offsets 0..=3
    // (any block-wise or strided scan has to treat every distance alike), all-W and all-U boundaries
    {
        let mut gap_cases = vec![];
        for &t in &['1', 'a', 'あ', 'ア', '亜', '.', '\n', '\u{301}'] {
            let f = if t == 'a' { '1' } else { 'a' };
            for o in 0..=3usize {
                for g in 0..=tier.pick(70usize, 140) {
                    let mut text: Vec<char> = vec![f; o];
                    text.extend([t, t]);
                    text.extend(std::iter::repeat(f).take(g));
                    text.extend([t, t, f, f]);
                    for base in [1u8, 2] {
                        gap_cases.push((text.clone(), vec![base; text.len() - 1]));
                    }
                }
            }
        }
        chk.set("gap_family_cases", json!(gap_cases.len()));
        gap_cases.par_iter().for_each(|(text, labels)| {
            for id in 0..8 {
                chk.eval(1);
                if expected_boundaries(id, text, labels) != *labels {
                    chk.nontrivial(1);
                }
                if let Some((k, what)) = check_boundary_filter(id, text, labels, 0, &[]) {
                    chk.violation(format!("{k} filter={id} text={:?} labels={} n_tags=0", gen::s(text), lab(labels)), what, json!({"kind": "boundary", "filter": id, "text": gen::s(text), "labels": labels, "n_tags": 0, "pattern": 0}));
                }
            }
        });
    }
    // long-unit family: ONE unit of what a filter merges (a grapheme cluster of a base plus k combining marks or
    // k ZWJ-joined pictographs, a run of k characters of one type) with k around 255/256 and 1 KiB (thorough also
    // 4 KiB and u16), followed by two short units of the same kind and one of another; all-W and all-U boundaries
    {
        let ks: Vec<usize> = tier.pick(vec![254usize, 255, 256, 257, 1024], vec![254, 255, 256, 257, 1024, 4096, 65534, 65535, 65536]);
        let mut unit_cases = vec![];
        for &k in &ks {
            for (head, u, other) in [('a', '\u{301}', '亜'), ('👨', '\u{200d}', 'a'), ('1', '1', 'a'), ('a', 'a', '1'), ('あ', 'あ', 'a'), ('ア', 'ア', 'a'), ('亜', '亜', 'a'), ('.', '.', 'a')] {
                for o in 0..=1usize {
                    let mut text: Vec<char> = vec![other; o];
                    text.push(head);
                    text.extend(std::iter::repeat(u).take(k));
                    text.extend([other, head, u, u, other, head, u]);
                    for base in [1u8, 2] {
                        unit_cases.push((text.clone(), vec![base; text.len() - 1]));
                    }
                }
            }
        }
        chk.set("long_unit_cases", json!(unit_cases.len()));
        chk.set("long_unit_sizes", json!(ks));
        unit_cases.par_iter().for_each(|(text, labels)| {
            for id in 0..8 {
                chk.eval(1);
                if expected_boundaries(id, text, labels) != *labels {
                    chk.nontrivial(1);
                }
                if let Some((k, what)) = check_boundary_filter(id, text, labels, 0, &[]) {
                    let what: String = what.chars().take(400).collect();
                    let head: String = text.iter().take(3).collect();
                    chk.violation(format!("{k} filter={id} long-unit head={head:?} len={} labels={}", text.len(), labels[0]), what, json!({"kind": "boundary", "filter": id, "text": gen::s(text), "labels": labels, "n_tags": 0, "pattern": 0, "label": format!("long-unit head={head:?} len={} labels={}", text.len(), labels[0])}));
                }
            }
        });
    }
    // every Unicode scalar value (NUL excluded: not a legal sentence character) in four contexts, so that
    // every (grapheme-break class x character type) combination and every line-break-like character occurs:
    // [a c], [c a], [c c], [half-width katakana, c, a]; grapheme and line-break filters on all four, the six
    // character-type filters on [c c]; all-W labels, and all-N labels for the two scanning filters (quick: [a c] and [c c] only for the two scanning filters)
    {
        let all: Vec<char> = (1u32..=0x10FFFF).filter_map(char::from_u32).collect();
        chk.set("all_scalar_values_scanned", json!(all.len()));
        all.par_iter().for_each(|&c| {
            let ctxs: Vec<Vec<char>> = tier.pick(vec![vec!['a', c], vec![c, c]], vec![vec!['a', c], vec![c, 'a'], vec![c, c], vec!['ｶ', c, 'a']]);
            for (k, text) in ctxs.iter().enumerate() {
              // all-W shows a filter that CLEARS boundaries, all-N one that SETS them (the line-break filter): both
              for base in [1u8, 0] {
                let labels = vec![base; text.len() - 1];
                let ids: &[usize] = if base == 0 { &[6, 7] } else if text[0] == c && text[1] == c { &[0, 1, 2, 3, 4, 5, 6, 7] } else { &[6, 7] };
                let _ = k;
                for &id in ids {
                    chk.eval(1);
                    if expected_boundaries(id, text, &labels) != labels {
                        chk.nontrivial(1);
                    }
                    if let Some((kd, what)) = check_boundary_filter(id, text, &labels, 0, &[]) {
                        chk.violation(format!("{kd} filter={id} text={:?} labels={} n_tags=0", gen::s(text), lab(&labels)), what, json!({"kind": "boundary", "filter": id, "text": gen::s(text), "labels": labels, "n_tags": 0, "pattern": 0}));
                    }
                }
              }
            }
        });
    }
    // pattern tagger: every rule table over surfaces {a, ab} with tag vectors of length 0..3
    let mut vecs: Vec<Option<Vec<Option<String>>>> = vec![None];
    for len in 0..=3 {
        for v in gen::vectors(2, len) {
            vecs.push(Some(v.iter().enumerate().map(|(j, &x)| if x == 1 { Some(format!("R{j}")) } else { None }).collect()));
        }
    }
    let ttexts = gen::strings(&['a', 'b', 'あ'], 1, tier.pick(3, 4));
    let mut tables = vec![];
    for ra in &vecs {
        for rab in &vecs {
            let mut rules = vec![];
            if let Some(r) = ra {
                rules.push(("a".to_string(), r.clone()));
            }
            if let Some(r) = rab {
                rules.push(("ab".to_string(), r.clone()));
            }
            tables.push(rules);
        }
    }
    chk.set("tagger_rule_tables", json!(tables.len()));
    tables.par_iter().for_each(|rules| {
        for text in &ttexts {
            for labels in gen::vectors(3, text.len() - 1) {
                for n_tags in 0..4usize {
                    for pattern in 0..3u8 {
                        if n_tags == 0 && pattern > 0 {
                            continue;
                        }
                        let tags = tags_for(text.len(), n_tags, pattern);
                        chk.eval(1);
                        if n_tags > 0 && !rules.is_empty() {
                            chk.nontrivial(1);
                        }
                        if let Some((k, what)) = check_tagger(rules, text, &labels, n_tags, &tags) {
                            chk.violation(
                                format!("{k} rules={rules:?} text={:?} labels={} n_tags={n_tags} pattern={pattern}", gen::s(text), lab(&labels)),
                                what,
                                json!({"kind": "tagger", "rules": rules, "text": gen::s(text), "labels": labels, "n_tags": n_tags, "pattern": pattern}),
                            );
                        }
                    }
                }
            }
        }
    });
    chk.sample(json!({"filter": "concat-graphemes", "text": "a👨\u{200d}👨🏽", "labels": "WUW", "expected": "WNN"}));
    chk.sample(json!({"filter": "wsconst(Digit)", "text": "11a1", "labels": "WWU", "expected": "NWU"}));
    chk.sample(json!({"filter": "pattern-tagger", "rules": {"a": ["R0", null, "R2"]}, "text": "ab", "labels": "W", "n_tags": 2}));
    chk.assume("grapheme cluster boundaries: unicode-segmentation run over the whole string is the trusted definition");
    chk.finish(
        "six wsconst filters, the line-break filter and the grapheme filter x all texts up to the bound over a 13-letter alphabet (digits, letters, kana, kanji, CR, LF, ZWJ, pictograph, regional indicator, combining mark, skin-tone modifier) x every {N,W,U} vector (n<=4) or the constant vectors and all single deviations (n=5) x three tag fillings, plus long texts (30 / 64 characters, periodic labels) and the gap family (two target pairs 0..=70 fillers apart (140 in thorough) at offsets 0..=3, for each of 8 target characters) and every Unicode scalar value in two / four two-to-three-character contexts (all grapheme-break classes x character types); the pattern tagger with all 256 rule tables x texts x label vectors x tag counts 0..3 x three tag fillings; non-trivial = the rule changes something; distinct by construction",
        true,
        &replay,
    )
}
