//! C17 — KyTea model conversion preserves the word-segmentation model. Engines E1 + E3.
//! A KyTea binary *writer* in the harness generates files; the converted model (decoded by the
//! mirror) must contain exactly the encoded entries and predict as the reference says; every
//! proper prefix of every file must be rejected without a panic.

use crate::gen::{self, mix};
use crate::mirror::*;
use crate::refmodel::*;
use crate::report::*;
use rayon::prelude::*;
use serde::{Deserialize, Serialize};
use serde_json::{json, Value};
use std::collections::BTreeMap;
use vaporetto::{KyteaModel, Model, Predictor, Sentence};

#[derive(Clone, Debug, Serialize, Deserialize)]
pub struct KyteaSpec {
    pub char_map: Vec<char>,
    pub char_w: u8,
    pub type_w: u8,
    pub dict_n: u8,
    pub n_tags: u32,
    pub bias: i16,
    pub char_ngrams: Vec<(String, Vec<i16>)>,
    pub type_ngrams: Vec<(String, Vec<i16>)>, // letters DRHTKO (or \u{4})
    pub n_dicts: u8,
    pub words: Vec<(String, u8)>, // word, membership mask
    pub dict_vec: Vec<i16>,
    pub extra_entry_weights: usize, // KyTea stores more weights per entry than vaporetto keeps
    /// write failure-link (suffix) outputs on every state like a real KyTea automaton
    #[serde(default)]
    pub inherit_outputs: bool,
    /// header fields that the reader at the pinned commit parses and ignores take unusual values:
    /// do_tags = 0, and in the word-segmentation model solver type 7, bias flag 0, multiplier 0.25
    #[serde(default)]
    pub flags_off: bool,
}

struct W(Vec<u8>);
impl W {
    fn u8(&mut self, x: u8) {
        self.0.push(x)
    }
    fn u16(&mut self, x: u16) {
        self.0.extend(x.to_le_bytes())
    }
    fn i16(&mut self, x: i16) {
        self.0.extend(x.to_le_bytes())
    }
    fn u32(&mut self, x: u32) {
        self.0.extend(x.to_le_bytes())
    }
    fn i32(&mut self, x: i32) {
        self.0.extend(x.to_le_bytes())
    }
    fn f64(&mut self, x: f64) {
        self.0.extend(x.to_le_bytes())
    }
    fn vec_i16(&mut self, v: &[i16]) {
        self.u32(v.len() as u32);
        for &x in v {
            self.i16(x);
        }
    }
}

fn cidx(map: &[char], c: char) -> u16 {
    map.iter().position(|&m| m == c).unwrap_or_else(|| machinery_error(&format!("character {c:?} missing from the generated char map"))) as u16 + 1
}

/// Writes a trie dictionary: keys -> entry index (entries written by `write_entry`).
fn write_dict(w: &mut W, map: &[char], n_dicts: u8, keys: &[Vec<char>], inherit: bool, write_entry: &dyn Fn(&mut W, usize)) {
    w.u8(n_dicts);
    if keys.is_empty() {
        w.u32(0);
        return;
    }
    // build trie
    struct St {
        gotos: BTreeMap<char, usize>,
        out: Option<usize>,
    }
    let mut sts = vec![St { gotos: BTreeMap::new(), out: None }];
    for (ei, k) in keys.iter().enumerate() {
        let mut cur = 0;
        for &c in k {
            let next = match sts[cur].gotos.get(&c) {
                Some(&n) => n,
                None => {
                    sts.push(St { gotos: BTreeMap::new(), out: None });
                    let n = sts.len() - 1;
                    sts[cur].gotos.insert(c, n);
                    n
                }
            };
            cur = next;
        }
        sts[cur].out = Some(ei);
    }
    // the string spelled by each state
    let mut paths: Vec<Vec<char>> = vec![vec![]; sts.len()];
    for i in 0..sts.len() {
        let here = paths[i].clone();
        for (&c, &n) in &sts[i].gotos {
            let mut p = here.clone();
            p.push(c);
            paths[n] = p;
        }
    }
    w.u32(sts.len() as u32);
    for (si, st) in sts.iter().enumerate() {
        w.u32(0); // failure link (unused by the converter)
        w.u32(st.gotos.len() as u32);
        // KyTea does not promise an order; write in reverse to exercise the reader's sort
        for (&c, &n) in st.gotos.iter().rev() {
            w.u16(cidx(map, c));
            w.u32(n as u32);
        }
        // outputs as KyTea's Aho-Corasick automaton stores them: the state's own key first (if it
        // is one), then every key that is a proper suffix of the state's string (inherited through
        // failure links) — also on states that are NOT keys themselves; `is_branch` marks keys
        let mut outs: Vec<u32> = vec![];
        if let Some(e) = st.out {
            outs.push(e as u32);
        }
        if inherit {
            let path = &paths[si];
            for start in 1..path.len() {
                if let Some(ei) = keys.iter().position(|k| k[..] == path[start..]) {
                    outs.push(ei as u32);
                }
            }
        }
        w.u32(outs.len() as u32);
        for o in &outs {
            w.u32(*o);
        }
        w.u8(st.out.is_some() as u8);
    }
    w.u32(keys.len() as u32);
    for i in 0..keys.len() {
        write_entry(w, i);
    }
}

fn write_string(w: &mut W, map: &[char], s: &str) {
    let cs: Vec<char> = s.chars().collect();
    w.u32(cs.len() as u32);
    for c in cs {
        w.u16(cidx(map, c));
    }
}

pub fn write_kytea(k: &KyteaSpec) -> Vec<u8> {
    let mut w = W(vec![]);
    w.0.extend(b"KyTea 0.4.7 B UTF-8\n");
    w.u8(1); // do_ws
    w.u8(if k.flags_off { 0 } else { 1 }); // do_tags
    w.u32(k.n_tags);
    w.u8(k.char_w);
    w.u8(3); // char_n
    w.u8(k.type_w);
    w.u8(3); // type_n
    w.u8(k.dict_n);
    w.u8(1); // bias
    w.f64(0.001);
    w.u8(1); // solver
    let map_s: String = k.char_map.iter().collect();
    w.0.extend(map_s.as_bytes());
    w.u8(0);
    // word segmentation model
    // header fields of the word-segmentation model that the reader at the pinned commit parses and
    // ignores (solver type, bias flag, multiplier) take other values when flags_off is set
    w.u32(2); // n_classes
    w.u8(if k.flags_off { 7 } else { 1 }); // solver type
    w.i32(1);
    w.i32(-1);
    w.u8(if k.flags_off { 0 } else { 1 }); // bias flag
    w.f64(if k.flags_off { 0.25 } else { 1.5 }); // multiplier
    w.u8(1); // feature lookup active
    let ck: Vec<Vec<char>> = k.char_ngrams.iter().map(|(s, _)| s.chars().collect()).collect();
    write_dict(&mut w, &k.char_map, 0, &ck, k.inherit_outputs, &|w, i| w.vec_i16(&k.char_ngrams[i].1));
    let tk: Vec<Vec<char>> = k.type_ngrams.iter().map(|(s, _)| s.chars().collect()).collect();
    write_dict(&mut w, &k.char_map, 0, &tk, k.inherit_outputs, &|w, i| w.vec_i16(&k.type_ngrams[i].1));
    write_dict(&mut w, &k.char_map, 0, &[], false, &|_, _| {}); // self dict
    w.vec_i16(&k.dict_vec);
    w.vec_i16(&[k.bias]);
    w.vec_i16(&[]);
    w.vec_i16(&[]);
    // global tag models: tag list + no model
    for t in 0..k.n_tags {
        w.u32(1);
        write_string(&mut w, &k.char_map, if t % 2 == 0 { "a" } else { "" });
        w.u32(0); // n_classes = 0 -> no model
    }
    // dictionary
    let wk: Vec<Vec<char>> = k.words.iter().map(|(s, _)| s.chars().collect()).collect();
    write_dict(&mut w, &k.char_map, k.n_dicts, &wk, k.inherit_outputs, &|w, i| {
        write_string(w, &k.char_map, &k.words[i].0);
        for _ in 0..k.n_tags {
            w.u32(1);
            write_string(w, &k.char_map, "a");
            w.u8(1);
        }
        w.u8(k.words[i].1);
        for _ in 0..k.n_tags {
            w.u32(0);
        }
    });
    // subword dictionary: empty
    write_dict(&mut w, &k.char_map, 0, &[], false, &|_, _| {});
    w.0
}

fn type_code(c: char) -> Option<u8> {
    Some(match c {
        'D' => 1,
        'R' => 2,
        'H' => 3,
        'T' => 4,
        'K' => 5,
        'O' => 6,
        _ => return None,
    })
}

/// The model the file encodes (entry order is not part of the property: compared sorted).
pub fn expected(k: &KyteaSpec) -> ModelSpec {
    let mut m = ModelSpec { bias: k.bias as i32, char_window_size: k.char_w, type_window_size: k.type_w, ..Default::default() };
    for (s, v) in &k.char_ngrams {
        let n = 2 * k.char_w as usize + 1 - s.chars().count();
        m.char_ngram_model.push(NgramData { ngram: s.clone(), weights: v[..n].iter().map(|&x| x as i32).collect() });
    }
    for (s, v) in &k.type_ngrams {
        if s.contains('\u{4}') {
            continue; // documented: invalid type byte 0x04 of some distributed models is skipped
        }
        let n = 2 * k.type_w as usize + 1 - s.chars().count();
        m.type_ngram_model.push(NgramData { ngram: s.chars().map(|c| type_code(c).unwrap()).collect(), weights: v[..n].iter().map(|&x| x as i32).collect() });
    }
    for (s, mask) in &k.words {
        let len = s.chars().count();
        let idx = len.min(k.dict_n as usize) - 1;
        let (mut first, mut inside, mut last) = (0i32, 0i32, 0i32);
        for j in 0..k.n_dicts as usize {
            if mask >> j & 1 == 1 {
                let off = 3 * k.dict_n as usize * j + 3 * idx;
                first += k.dict_vec[off] as i32;
                inside += k.dict_vec[off + 1] as i32;
                last += k.dict_vec[off + 2] as i32;
            }
        }
        let mut weights = vec![inside; len + 1];
        weights[0] = first;
        weights[len] = last;
        m.dict_model.push(WordWeightRecord { word: s.clone(), weights, comment: String::new() });
    }
    sort_spec(&mut m);
    m
}

fn sort_spec(m: &mut ModelSpec) {
    m.char_ngram_model.sort_by(|a, b| a.ngram.cmp(&b.ngram));
    m.type_ngram_model.sort_by(|a, b| a.ngram.cmp(&b.ngram));
    m.dict_model.sort_by(|a, b| a.word.cmp(&b.word));
}

pub fn check_convert(k: &KyteaSpec, texts: &[Vec<char>]) -> Option<(String, String)> {
    let bytes = write_kytea(k);
    let r = guard(|| {
        let mut rest = &bytes[..];
        let km = KyteaModel::read(&mut rest).map_err(|e| format!("KyteaModel::read failed on a well-formed file: {e}"))?;
        if !rest.is_empty() {
            return Err(format!("KyteaModel::read left {} bytes unread (harness writer and reader disagree)", rest.len()));
        }
        Model::try_from(km).map_err(|e| format!("conversion failed: {e}"))
    });
    let model = match r {
        Err(p) => return Some(("convert-panic".into(), p)),
        Ok(Err(e)) => return Some(("convert-err".into(), e)),
        Ok(Ok(m)) => m,
    };
    let mut got = ModelSpec::from_model(&model).unwrap_or_else(|e| machinery_error(&e));
    sort_spec(&mut got);
    let want = expected(k);
    if got != want {
        let kind = if got.char_ngram_model != want.char_ngram_model {
            "char-ngrams"
        } else if got.type_ngram_model != want.type_ngram_model {
            "type-ngrams"
        } else if got.dict_model != want.dict_model {
            "dictionary"
        } else {
            "header"
        };
        return Some((format!("model-{kind}"), format!("converted model {got:?} differs from the file's content {want:?}").chars().take(1500).collect()));
    }
    // it segments as those weights dictate
    let pred = match guard(|| Predictor::new(model, false)) {
        Ok(Ok(p)) => p,
        other => return Some(("predictor".into(), format!("Predictor::new on the converted model: {:?}", other.map(|r| r.map(|_| ()).map_err(|e| e.to_string()))))),
    };
    for t in texts {
        let ts = gen::s(t);
        let r = guard(|| {
            let mut s = Sentence::from_raw(ts.clone()).unwrap();
            pred.predict(&mut s);
            (s.boundary_scores().to_vec(), s.boundaries().iter().map(|&b| b as u8).collect::<Vec<u8>>())
        });
        let sc = ref_score(&want, t);
        match r {
            Err(p) => return Some(("predict-panic".into(), p)),
            Ok((scores, labels)) => {
                if scores.iter().map(|&x| x as i64).collect::<Vec<_>>() != sc || labels != ref_boundaries(&sc) {
                    return Some(("predict".into(), format!("text {ts:?}: converted model scores {scores:?}, the file's weights give {sc:?}")));
                }
            }
        }
    }
    None
}

/// A reader that hands out at most `k` bytes per call (short reads are legal for any `Read`).
pub struct Trickle<'a> {
    data: &'a [u8],
    pos: usize,
    k: usize,
}

impl std::io::Read for Trickle<'_> {
    fn read(&mut self, buf: &mut [u8]) -> std::io::Result<usize> {
        let n = self.k.min(buf.len()).min(self.data.len() - self.pos);
        buf[..n].copy_from_slice(&self.data[self.pos..self.pos + n]);
        self.pos += n;
        Ok(n)
    }
}

impl std::io::BufRead for Trickle<'_> {
    fn fill_buf(&mut self) -> std::io::Result<&[u8]> {
        let n = self.k.min(self.data.len() - self.pos);
        Ok(&self.data[self.pos..self.pos + n])
    }
    fn consume(&mut self, n: usize) {
        self.pos += n;
    }
}

/// Delivery deviations: the same file through readers that return short reads (at most k bytes per
/// call; std's BufReader with small capacities, which is how the converter CLI reads) must convert
/// to the same model as the slice.
pub fn check_delivery(bytes: &[u8]) -> Option<(String, String)> {
    let via = |f: &dyn Fn() -> Result<Option<Vec<u8>>, String>| guard(|| f()).and_then(|r| r);
    let base = via(&|| {
        let mut rest = bytes;
        let km = KyteaModel::read(&mut rest).map_err(|e| e.to_string())?;
        Ok(Model::try_from(km).ok().and_then(|m| m.to_vec().ok()))
    });
    for k in [1usize, 2, 3, 7, 13] {
        let got = via(&|| {
            let km = KyteaModel::read(Trickle { data: bytes, pos: 0, k }).map_err(|e| e.to_string())?;
            Ok(Model::try_from(km).ok().and_then(|m| m.to_vec().ok()))
        });
        if got != base {
            return Some((format!("delivery trickle={k}"), format!("a reader delivering at most {k} bytes per call converts to {} instead of {}", brief(&got), brief(&base))));
        }
    }
    for cap in [5usize, 7, 64] {
        let got = via(&|| {
            let km = KyteaModel::read(std::io::BufReader::with_capacity(cap, Trickle { data: bytes, pos: 0, k: 4096 })).map_err(|e| e.to_string())?;
            Ok(Model::try_from(km).ok().and_then(|m| m.to_vec().ok()))
        });
        if got != base {
            return Some((format!("delivery bufreader={cap}"), format!("BufReader::with_capacity({cap}) converts to {} instead of {}", brief(&got), brief(&base))));
        }
    }
    None
}

fn brief(r: &Result<Option<Vec<u8>>, String>) -> String {
    match r {
        Ok(Some(b)) => format!("a model of {} bytes (hash {:016x})", b.len(), gen::mix(b.iter().fold(0u64, |a, &x| a.wrapping_mul(1099511628211) ^ x as u64))),
        Ok(None) => "a conversion error".into(),
        Err(e) => format!("failure: {e}"),
    }
}

/// The real `convert_kytea_model` binary on one file: exit status and written model (zstd-decoded)
/// must agree with the in-process conversion of the same bytes; a rejected file must end in a clean
/// error (no panic, no signal) and a complete one in exit 0.
pub fn check_cli(bytes: &[u8], label: &str) -> Option<(String, String)> {
    let dir = format!("{}/c17-{label}", crate::c19::SCRATCH);
    let _ = std::fs::remove_dir_all(&dir);
    std::fs::create_dir_all(&dir).unwrap_or_else(|e| machinery_error(&e.to_string()));
    let (inp, outp) = (format!("{dir}/kytea.bin"), format!("{dir}/model.zst"));
    std::fs::write(&inp, bytes).unwrap_or_else(|e| machinery_error(&e.to_string()));
    let out = std::process::Command::new(format!("{}/convert_kytea_model", crate::c19::CLI_DIR))
        .args(["--model-in", &inp, "--model-out", &outp, "--zstd-workers", if bytes.len() % 2 == 0 { "0" } else { "3" }])
        .output()
        .unwrap_or_else(|e| machinery_error(&format!("cannot run convert_kytea_model: {e}")));
    let stderr = String::from_utf8_lossy(&out.stderr).to_string();
    let code = out.status.code();
    let want = guard(|| {
        let mut rest = bytes;
        KyteaModel::read(&mut rest).ok().and_then(|k| Model::try_from(k).ok()).and_then(|m| m.to_vec().ok())
    });
    let r = (|| {
        if code.is_none() || code == Some(101) || stderr.contains("panicked at") {
            return Some(("cli-crash".to_string(), format!("convert_kytea_model ended with {:?}: {}", out.status, stderr.lines().filter(|l| l.contains("panicked")).collect::<Vec<_>>().join(" | "))));
        }
        match want {
            Err(p) => Some(("cli-lib-panic".to_string(), format!("the library conversion panicked: {p}"))),
            Ok(None) => (code == Some(0)).then(|| ("cli-accepts".to_string(), "the tool exited 0 on a file the library rejects".to_string())),
            Ok(Some(b)) => {
                if code != Some(0) {
                    return Some(("cli-rejects".to_string(), format!("the tool exited with {code:?} ({}) on a file the library converts", stderr.lines().last().unwrap_or(""))));
                }
                let got = std::fs::read(&outp).ok().and_then(|z| zstd::decode_all(&z[..]).ok());
                (got.as_deref() != Some(&b[..])).then(|| ("cli-model-differs".to_string(), format!("the model written by the tool ({} bytes) differs from the library conversion ({} bytes)", got.map_or(0, |g| g.len()), b.len())))
            }
        }
    })();
    let _ = std::fs::remove_dir_all(&dir);
    r
}

/// Every proper prefix must be rejected with an error.
pub fn check_prefixes(bytes: &[u8]) -> Option<(usize, String, String)> {
    for k in 0..bytes.len() {
        let r = guard(|| {
            let mut rest = &bytes[..k];
            KyteaModel::read(&mut rest).map(|m| Model::try_from(m).is_ok())
        });
        match r {
            Err(p) => return Some((k, "truncated-panic".into(), format!("reading the first {k} of {} bytes panicked: {p}", bytes.len()))),
            Ok(Ok(_)) => return Some((k, "truncated-accepted".into(), format!("the first {k} of {} bytes were accepted as a KyTea model", bytes.len()))),
            Ok(Err(_)) => {}
        }
    }
    None
}

fn entry(len: usize, w: u8, extra: usize, salt: u64) -> Vec<i16> {
    let n = 2 * w as usize + 1 - len + extra;
    (0..n).map(|k| (mix(salt ^ (k as u64) << 12) % 4001) as i16 - 2000).collect()
}

pub fn specs(tier: Tier) -> Vec<(String, KyteaSpec)> {
    let mut out = vec![];
    let maps: Vec<Vec<char>> = vec![vec!['a', 'b', 'あ', 'D', 'R', 'H', 'T', 'K', 'O', '\u{4}'], vec!['𠀋', 'R', 'a', 'H', 'あ', 'b', 'O', 'K', 'T', 'D', 'é', '\u{4}']];
    let cpool = ["a", "ab", "b", "aba", "あ", "aあ", "ba", "abab"];
    let tpool = ["R", "RH", "H", "RR", "HRR", "O", "R\u{4}", "K", "T", "TR", "\u{4}"];
    let wpool = ["a", "ab", "abab", "あ", "ba", "aあb"];
    let windows: Vec<(u8, u8)> = tier.pick(vec![(1, 1), (2, 3), (3, 2)], vec![(1, 1), (1, 2), (2, 1), (2, 2), (2, 3), (3, 2), (3, 3), (1, 3), (3, 1)]);
    let mut windows = windows;
    // u8 extremes of the window sizes stored in the file (2*W does not fit a u8 from 128 on)
    windows.extend([(127u8, 1u8), (128, 1), (1, 128), (200, 2), (2, 255), (255, 255)]);
    let kmax = tier.pick(2, 4);
    for (mi, map) in maps.iter().enumerate() {
        for &(cw, tw) in &windows {
            // n-gram tries: every set of <= kmax n-grams per trie (admissible lengths)
            let cp: Vec<&str> = cpool.iter().copied().filter(|s| s.chars().count() <= 2 * cw as usize).collect();
            let tp: Vec<&str> = tpool.iter().copied().filter(|s| s.chars().count() <= 2 * tw as usize).collect();
            let csets = gen::subsets_upto(cp.len(), kmax);
            let tsets = gen::subsets_upto(tp.len(), kmax);
            let big = cw > 100 || tw > 100;
            for (i, cs) in csets.iter().enumerate().skip(1) {
                if big && i % 5 != 1 {
                    continue;
                }
                // (the empty character / type trie is excluded: the converter documents an explicit
                // "no character dictionary" / "no type dictionary" error for such degenerate files)
                // pair each char set with a rotating type set (and vice versa) to keep the product finite
                let ts = &tsets[1 + i % (tsets.len() - 1)];
                let extra = i % 3;
                let k = KyteaSpec {
                    char_map: map.clone(),
                    char_w: cw,
                    type_w: tw,
                    dict_n: 2,
                    n_tags: (i % 3) as u32,
                    bias: (mix(i as u64) % 21) as i16 - 10,
                    char_ngrams: cs.iter().map(|&j| (cp[j].to_string(), entry(cp[j].chars().count(), cw, extra, 10 + j as u64))).collect(),
                    type_ngrams: ts.iter().map(|&j| (tp[j].to_string(), entry(tp[j].chars().count(), tw, extra, 50 + j as u64))).collect(),
                    n_dicts: 0,
                    words: vec![],
                    dict_vec: vec![],
                    extra_entry_weights: extra,
                    inherit_outputs: i % 2 == 0,
                    flags_off: i % 3 == 1,
                };
                out.push((format!("ngrams map={mi} cw={cw} tw={tw} inh={} c={:?} t={:?}", (i % 2 == 0) as u8, cs.iter().map(|&j| cp[j]).collect::<Vec<_>>(), ts.iter().map(|&j| tp[j]).collect::<Vec<_>>()), k));
            }
            for (i, ts) in tsets.iter().enumerate().skip(1) {
                if big && i % 5 != 1 {
                    continue;
                }
                let cs = &csets[1 + (i * 3) % (csets.len() - 1)];
                let k = KyteaSpec {
                    char_map: map.clone(),
                    char_w: cw,
                    type_w: tw,
                    dict_n: 1,
                    n_tags: 0,
                    bias: 0,
                    char_ngrams: cs.iter().map(|&j| (cp[j].to_string(), entry(cp[j].chars().count(), cw, 0, 110 + j as u64))).collect(),
                    type_ngrams: ts.iter().map(|&j| (tp[j].to_string(), entry(tp[j].chars().count(), tw, 0, 150 + j as u64))).collect(),
                    n_dicts: 0,
                    words: vec![],
                    dict_vec: vec![],
                    extra_entry_weights: 0,
                    inherit_outputs: i % 2 == 1,
                    flags_off: i % 3 == 2,
                };
                out.push((format!("types map={mi} cw={cw} tw={tw} c={:?} t={:?}", cs.iter().map(|&j| cp[j]).collect::<Vec<_>>(), ts.iter().map(|&j| tp[j]).collect::<Vec<_>>()), k));
            }
        }
        // dictionaries: 1, 2, 8 dictionaries, every membership mask for up to 3 words, buckets 1, 2, 4
        for n_dicts in [1u8, 2, 8] {
            for dict_n in [1u8, 2, 4] {
                let masks: Vec<u8> = if n_dicts == 8 { vec![0, 1, 0x80, 0x81, 0xff, 0x5a] } else { (0..(1u16 << n_dicts)).map(|m| m as u8).collect() };
                let wsets = gen::subsets_upto(wpool.len(), tier.pick(2, 3));
                for (i, ws) in wsets.iter().enumerate().skip(1) {
                    // all mask assignments for the words of this set
                    let total = masks.len().pow(ws.len() as u32);
                    let stride = (total / tier.pick(16, 256)).max(1);
                    for a in (0..total).step_by(stride) {
                        let mut x = a;
                        let words: Vec<(String, u8)> = ws
                            .iter()
                            .map(|&j| {
                                let m = masks[x % masks.len()];
                                x /= masks.len();
                                (wpool[j].to_string(), m)
                            })
                            .collect();
                        // every third file: weights at and near the 16-bit limits, so that sums over several
                        // dictionaries leave the i16 range (the converted model holds i32)
                        let extreme = [i16::MAX, i16::MIN, 20000, -20000, 15000, -1, 1, i16::MAX - 1];
                        let dv: Vec<i16> = (0..3 * dict_n as usize * n_dicts as usize)
                            .map(|q| if (a + i) % 3 == 0 { extreme[(mix(77 + q as u64 + a as u64) % extreme.len() as u64) as usize] } else { (mix(900 + q as u64) % 2001) as i16 - 1000 })
                            .collect();
                        let k = KyteaSpec {
                            char_map: map.clone(),
                            char_w: 2,
                            type_w: 2,
                            dict_n,
                            n_tags: (i % 2) as u32,
                            bias: if (a + i) % 3 == 0 { [i16::MAX, i16::MIN, 1][a % 3] } else { 1 },
                            char_ngrams: vec![("a".into(), entry(1, 2, 0, 7))],
                            type_ngrams: vec![("R".into(), entry(1, 2, 0, 8))],
                            n_dicts,
                            words,
                            dict_vec: dv,
                            extra_entry_weights: 0,
                            inherit_outputs: a % 2 == 0,
                            flags_off: (a / 2 + i) % 2 == 1,
                        };
                        out.push((format!("dict map={mi} n_dicts={n_dicts} dict_n={dict_n} words={:?}", k.words), k));
                    }
                }
            }
        }
        // LONG dictionary words (lengths around 255/256, 512 and 1 KiB): the length bucket is min(length, dict_n)
        for len in [254usize, 255, 256, 257, 258, 259, 260, 511, 512, 513, 1024, 1025] {
            for dict_n in [1u8, 2, 4] {
                let long: String = (0..len).map(|i| ['a', 'b', 'あ'][(i + i / 5) % 3]).collect();
                let dv: Vec<i16> = (0..3 * dict_n as usize * 2).map(|q| (mix(4100 + q as u64 + len as u64) % 2001) as i16 - 1000).collect();
                let k = KyteaSpec {
                    char_map: map.clone(),
                    char_w: 2,
                    type_w: 2,
                    dict_n,
                    n_tags: 0,
                    bias: 1,
                    char_ngrams: vec![("a".into(), entry(1, 2, 0, 7))],
                    type_ngrams: vec![("R".into(), entry(1, 2, 0, 8))],
                    n_dicts: 2,
                    words: vec![(long, 1 + (len % 3) as u8), ("ab".into(), 3)],
                    dict_vec: dv,
                    extra_entry_weights: 0,
                    inherit_outputs: len % 2 == 0,
                    flags_off: false,
                };
                out.push((format!("dict map={mi} long word of {len} characters dict_n={dict_n}"), k));
            }
        }
    }
    out
}

pub fn replay(c: &Value) -> Option<(String, String)> {
    if c["kind"] == "prefix" {
        let bytes: Vec<u8> = serde_json::from_value(c["bytes"].clone()).ok()?;
        let name = c["name"].as_str()?;
        return check_prefixes(&bytes).map(|(_, kd, w)| (format!("{kd} file={name}"), w));
    }
    if c["kind"] == "cli" {
        let bytes: Vec<u8> = serde_json::from_value(c["bytes"].clone()).ok()?;
        let name = c["name"].as_str()?;
        return check_cli(&bytes, "replay").map(|(kd, w)| (format!("{kd} file={name}"), w));
    }
    if c["kind"] == "delivery" {
        let bytes: Vec<u8> = serde_json::from_value(c["bytes"].clone()).ok()?;
        let name = c["name"].as_str()?;
        return check_delivery(&bytes).map(|(kd, w)| (format!("{kd} file={name}"), w));
    }
    let k: KyteaSpec = serde_json::from_value(c["spec"].clone()).ok()?;
    let name = c["name"].as_str()?;
    let texts = gen::strings(&['a', 'b', 'あ', '1'], 1, 4);
    check_convert(&k, &texts).map(|(kd, w)| (format!("{kd} {name}"), w))
}

pub fn run(tier: Tier) -> ! {
    let chk = Check::new("C17", tier, "fault_enumeration");
    quiet_panics();
    let sp = specs(tier);
    let texts = gen::strings(&['a', 'b', 'あ', '1'], 1, 4);
    chk.set("generated_files", json!(sp.len()));
    chk.set("texts", json!(texts.len()));
    let prefix_count = std::sync::atomic::AtomicU64::new(0);
    sp.par_iter().enumerate().for_each(|(i, (name, k))| {
        chk.eval(1);
        chk.nontrivial(1);
        if let Some((kd, what)) = check_convert(k, &texts) {
            chk.violation(format!("{kd} {name}"), what, json!({"kind": "convert", "name": name, "spec": k}));
        }
        // the long-word files take part in the delivery and truncation sweeps once per word length only (cost)
        if name.contains("long word") && !name.ends_with("dict_n=2") {
            return;
        }
        {
            let bytes = write_kytea(k);
            chk.eval(8);
            chk.nontrivial(8);
            if let Some((kd, what)) = check_delivery(&bytes) {
                chk.violation(format!("{kd} file={name}"), what, json!({"kind": "delivery", "name": name, "bytes": bytes}));
            }
        }
        // truncation: every proper prefix of every generated file (thorough) / of every 4th (quick)
        if tier == Tier::Thorough || i % 4 == 0 {
            let bytes = write_kytea(k);
            chk.eval(bytes.len() as u64);
            chk.nontrivial(bytes.len() as u64);
            prefix_count.fetch_add(bytes.len() as u64, std::sync::atomic::Ordering::Relaxed);
            if let Some((_, kd, what)) = check_prefixes(&bytes) {
                chk.violation(format!("{kd} file={name}"), what, json!({"kind": "prefix", "name": name, "bytes": bytes}));
            }
        }
    });
    // the repository's real KyTea model: full read must succeed, every proper prefix of the consumed part must fail
    let real = std::fs::read("/repo/resources/kytea-model.bin").unwrap_or_else(|e| machinery_error(&e.to_string()));
    let consumed = {
        let mut rest = &real[..];
        match guard(|| KyteaModel::read(&mut rest).map(|m| Model::try_from(m).is_ok())) {
            Ok(Ok(true)) => real.len() - rest.len(),
            other => {
                chk.violation("real-model-rejected".into(), format!("resources/kytea-model.bin: {other:?}"), json!({"kind": "prefix", "name": "resources/kytea-model.bin", "bytes": real}));
                0
            }
        }
    };
    chk.set("real_model_bytes_consumed", json!(consumed));
    chk.eval(consumed as u64);
    chk.nontrivial(consumed as u64);
    if let Some((kd, what)) = check_delivery(&real[..consumed]) {
        chk.violation(format!("{kd} file=resources/kytea-model.bin"), what, json!({"kind": "delivery", "name": "resources/kytea-model.bin", "bytes": real[..consumed].to_vec()}));
    }
    if let Some((_, kd, what)) = check_prefixes(&real[..consumed]) {
        chk.violation(format!("{kd} file=resources/kytea-model.bin"), what, json!({"kind": "prefix", "name": "resources/kytea-model.bin", "bytes": real[..consumed].to_vec()}));
    }
    // the real converter binary: a sub-sample of the generated files, the repository's model, and
    // truncated / padded variants of both (clean error resp. same model)
    if !std::path::Path::new(&format!("{}/convert_kytea_model", crate::c19::CLI_DIR)).exists() {
        machinery_error("convert_kytea_model binary not built (the check driver builds it)");
    }
    let mut cli_files: Vec<(String, Vec<u8>)> = sp.iter().step_by(tier.pick(97, 11)).map(|(n, k)| (n.clone(), write_kytea(k))).collect();
    cli_files.push(("resources/kytea-model.bin".into(), real.clone()));
    // files larger than the tool's 8 KiB read buffer: filler characters appended to the character map,
    // their byte count swept so that EVERY byte of the tries / dictionary part of one multi-dictionary file
    // (failure-link outputs included) lands on the 8192 boundary once
    {
        let (bname, base) = sp.iter().rev().find(|(n, k)| n.starts_with("dict") && !n.contains("long word") && k.n_dicts >= 2 && k.words.len() >= 2 && k.inherit_outputs).unwrap_or_else(|| machinery_error("no multi-dictionary spec"));
        let b0 = write_kytea(base);
        let map_bytes: usize = base.char_map.iter().map(|c| c.len_utf8()).sum();
        let tail = b0.len() - (41 + map_bytes);
        let lo = 8192usize.saturating_sub(41 + map_bytes + tail);
        let hi = 8192 - (41 + map_bytes);
        for f in (lo..=hi).step_by(tier.pick(1, 1)) {
            if f < 2 {
                continue;
            }
            let (n3, n2) = if f % 3 == 0 { (f / 3, 0) } else if f % 3 == 2 { (f / 3, 1) } else { (f / 3 - 1, 2) };
            let mut k = base.clone();
            k.char_map.extend((0..n3 as u32).filter_map(|q| char::from_u32(0x4E00 + q)));
            k.char_map.extend((0..n2 as u32).filter_map(|q| char::from_u32(0x0100 + q)));
            cli_files.push((format!("{f} filler bytes in the character map of [{bname}]"), write_kytea(&k)));
        }
    }
    let mut variants = vec![];
    for (n, b) in &cli_files {
        for cut in [0usize, 1, b.len() / 2, b.len().saturating_sub(1)] {
            variants.push((format!("{n} [first {cut} bytes]"), b[..cut.min(b.len())].to_vec()));
        }
        // a file larger than the 8 KiB buffer of the tool's BufReader: the same model padded at the end
        let mut padded = b.clone();
        padded.extend(std::iter::repeat(0u8).take(20000));
        variants.push((format!("{n} [+20000 trailing zero bytes]"), padded));
    }
    cli_files.extend(variants);
    chk.set("converter_cli_runs", json!(cli_files.len()));
    cli_files.par_iter().enumerate().for_each(|(i, (name, bytes))| {
        chk.eval(1);
        chk.nontrivial(1);
        if let Some((kd, what)) = check_cli(bytes, &format!("f{i}")) {
            chk.violation(format!("{kd} file={name}"), what, json!({"kind": "cli", "name": name, "bytes": bytes}));
        }
    });
    chk.set("truncation_points", json!(prefix_count.into_inner() + consumed as u64));
    chk.sample(json!({"file": sp[sp.len() / 2].0}));
    chk.sample(json!({"file": "resources/kytea-model.bin", "every_prefix_of_bytes": consumed}));
    chk.assume("TRUSTED: the field order of KyTea's binary format as read at the pinned commit (no second implementation in the sandbox); the harness writer mirrors it, so mutations of the arithmetic on top of it are what is detected");
    chk.assume("files without a character or type n-gram trie are not generated: the converter answers them with an explicit error by design");
    chk.assume("dictionary weight layout anchored as 3*buckets*dict + 3*bucket + {boundary before the word, inside, boundary after the word}");
    chk.finish(
        "generated KyTea files: 2 character maps x window pairs x every set of <= k n-grams per trie (prefix-related keys, extra stored weights, the 0x04 type byte) with rotating partner sets, and 1/2/8 dictionaries x buckets {1,2,4} x word sets x membership-mask assignments (sub-sampled, stride stated in code), 0-2 tag slots; each converted model must equal the file's content (mirror-decoded, order-insensitive) and score all texts up to 4 characters as the reference dictates; delivered through readers with short reads (at most 1/2/3/7/13 bytes per call, BufReader capacities 5/7/64) every file must convert to the same model as from a slice; the real convert_kytea_model binary on a sub-sample of the files, the repository's model and truncated / padded variants must agree with the library on acceptance and write the identical model; every proper prefix of the generated files (quick: every 4th file) and of resources/kytea-model.bin must be rejected without a panic; evaluations = files + truncation points",
        true,
        &replay,
    )
}
