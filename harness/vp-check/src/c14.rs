//! C14 — a serialised predictor behaves exactly like the original. Engine E1.

use crate::gen;
use crate::mirror::ModelSpec;
use crate::obs::{observe, Obs};
use crate::report::*;
use rayon::prelude::*;
use serde_json::{json, Value};
use vaporetto::{Predictor, Sentence};

fn tails() -> Vec<Vec<u8>> {
    vec![vec![], vec![0], vec![0xff, 0xff, 0xff], vec![]] // the last one is replaced by the predictor bytes themselves
}

fn run_pred(p: &Predictor, text: &str, fill: bool, store: bool) -> Result<Obs, String> {
    guard(|| {
        let mut s = Sentence::from_raw(text.to_string()).expect("from_raw");
        p.predict(&mut s);
        if fill {
            s.fill_tags();
        }
        observe(&s, fill && store)
    })
}

pub fn check_model(spec: &ModelSpec, predict_tags: bool, tail_idx: usize, texts: &[String]) -> Option<(String, String)> {
    let model = spec.to_model().unwrap_or_else(|e| machinery_error(&e));
    let mut p = match guard(|| Predictor::new(model, predict_tags)) {
        Ok(Ok(p)) => p,
        Ok(Err(e)) => return Some(("new".into(), format!("Predictor::new failed: {e}"))),
        Err(e) => return Some(("new-panic".into(), e)),
    };
    let bytes = match guard(|| p.serialize_to_vec()) {
        Ok(Ok(b)) => b,
        Ok(Err(e)) => return Some(("serialize".into(), format!("serialize_to_vec failed: {e}"))),
        Err(e) => return Some(("serialize-panic".into(), e)),
    };
    let mut tl = tails();
    tl[3] = bytes.clone();
    let tail = &tl[tail_idx];
    let mut buf = bytes.clone();
    buf.extend_from_slice(tail);
    let r = guard(|| unsafe { Predictor::deserialize_from_slice_unchecked(&buf).map(|(p, rest)| (p, rest.to_vec())) });
    let (mut p2, rest) = match r {
        Ok(Ok(x)) => x,
        Ok(Err(e)) => return Some(("deserialize".into(), format!("deserialize_from_slice_unchecked failed on self-produced bytes: {e}"))),
        Err(e) => return Some(("deserialize-panic".into(), e)),
    };
    if &rest != tail {
        return Some(("rest".into(), format!("rest has {} bytes, expected the {} tail bytes", rest.len(), tail.len())));
    }
    // serialising again gives a predictor of the same behaviour; also compare a second generation
    for store in [false, true] {
        if predict_tags {
            p.store_tag_scores(store);
            p2.store_tag_scores(store);
        } else if store {
            continue;
        }
        for t in texts {
            let a = run_pred(&p, t, predict_tags, store);
            let b = run_pred(&p2, t, predict_tags, store);
            if a != b {
                return Some(("behaviour".into(), format!("text {t:?} (store={store}): original {a:?}, deserialised {b:?}")));
            }
        }
    }
    None
}

pub fn replay(c: &Value) -> Option<(String, String)> {
    let spec: ModelSpec = serde_json::from_value(c["spec"].clone()).ok()?;
    let pt = c["predict_tags"].as_bool()?;
    let tail = c["tail"].as_u64()? as usize;
    let texts: Vec<String> = serde_json::from_value(c["texts"].clone()).ok()?;
    let desc = c["desc"].as_str()?;
    let clip = c["clip"].as_u64().unwrap_or(u64::MAX) as usize;
    if c["rawdesc"] == true {
        return check_model(&spec, pt, tail, &texts).map(|(k, w)| (format!("{k} {desc}"), w));
    }
    check_model(&spec, pt, tail, &texts).map(|(k, w)| (format!("{k} {desc} pt={} tail={tail}", pt as u8), if w.chars().count() > clip { w.chars().take(clip).collect() } else { w }))
}

pub fn run(tier: Tier) -> ! {
    let chk = Check::new("C14", tier, "exploration");
    quiet_panics();
    let texts: Vec<String> = gen::strings(&['a', 'b', 'あ', '𠀋'], 1, tier.pick(4, 5)).iter().map(|t| gen::s(t)).collect();
    let mut pool: Vec<(String, ModelSpec)> = vec![];
    for (_, fam) in crate::c01::families(tier) {
        let step = tier.pick(7, 5);
        for b in fam.into_iter().step_by(step) {
            pool.push((b.desc, b.spec));
        }
    }
    for (i, c) in crate::c06::families(tier).into_iter().enumerate() {
        // every T4 model (8/9/10 classes: fixed vs variable score vectors), a sub-sample of the rest
        if c.desc.starts_with("T4") || i % tier.pick(5, 3) == 0 {
            pool.push((c.desc, c.spec));
        }
    }
    pool.extend(crate::c06::zero_tag_family());
    pool.extend(crate::c06::extreme_tag_family());
    pool.extend(crate::c06::nested_tag_family().into_iter().step_by(7));
    pool.extend(crate::c01::edge_family());
    pool.extend(crate::c01::leading_zero_family());
    pool.extend(crate::c01::cache_table_family());
    pool.extend(crate::c01::sparse_large_window_family());
    pool.extend(crate::c06::scale_tag_family(tier.pick(5000, 70000)));
    pool.extend(crate::c01::many_entries_family(tier));
    pool.extend(crate::c01::nonbmp_family().into_iter().map(|b| (b.desc, b.spec)));
    // F7 again with texts longer than twice its windows (the far end of a long weight vector is used only there)
    {
        let f7 = crate::c01::sparse_large_window_family();
        let t7 = crate::c01::long_window_texts();
        f7.par_iter().enumerate().for_each(|(i, (desc, spec))| {
            for pt in [false, true] {
                let tail = (i + pt as usize) % 4;
                chk.eval(t7.len() as u64);
                chk.nontrivial(t7.len() as u64);
                if let Some((k, what)) = check_model(spec, pt, tail, &t7) {
                    chk.violation(format!("{k} {desc} pt={} tail={tail} long-texts", pt as u8), what, json!({"desc": format!("{desc} pt={} tail={tail} long-texts", pt as u8), "spec": spec, "predict_tags": pt, "tail": tail, "texts": t7, "rawdesc": true}));
                }
            }
        });
    }
    // F12: one long vector per model, with its own texts (the long pattern occurs in them)
    {
        let f12 = crate::c01::long_vector_family(tier);
        chk.set("long_vector_models", json!(f12.len()));
        f12.par_iter().enumerate().for_each(|(i, (desc, spec, extra))| {
            let mut t: Vec<String> = extra.clone();
            t.extend(["a", "ab", "ba", "aあa"].iter().map(|x| x.to_string()));
            for pt in [false, true] {
                let tail = (i + pt as usize) % 4;
                chk.eval(t.len() as u64);
                chk.nontrivial(t.len() as u64);
                if let Some((k, what)) = check_model(spec, pt, tail, &t) {
                    let what: String = what.chars().take(400).collect();
                    chk.violation(format!("{k} {desc} pt={} tail={tail}", pt as u8), what, json!({"desc": desc, "spec": spec, "predict_tags": pt, "tail": tail, "texts": t, "clip": 400}));
                }
            }
        });
    }
    chk.set("models", json!(pool.len()));
    chk.set("texts", json!(texts.len()));
    pool.par_iter().enumerate().for_each(|(i, (desc, spec))| {
        for pt in [false, true] {
            let tail = (i + pt as usize) % 4;
            chk.eval(texts.len() as u64);
            if !spec.char_ngram_model.is_empty() || !spec.type_ngram_model.is_empty() || !spec.dict_model.is_empty() {
                chk.nontrivial(texts.len() as u64);
            }
            if let Some((k, what)) = check_model(spec, pt, tail, &texts) {
                chk.violation(format!("{k} {desc} pt={} tail={tail}", pt as u8), what, json!({"desc": desc, "spec": spec, "predict_tags": pt, "tail": tail, "texts": texts}));
            }
        }
        if chk.want_sample() {
            chk.sample(json!({"model": desc, "tails": "[], [0], [ff ff ff], the predictor bytes again"}));
        }
    });
    chk.assume("bytes are self-produced (the property's scope); daachorse's (de)serialisation is trusted");
    chk.finish(
        "every model of the C01 families (plain / cached / tag-aware scorer variants, large windows) and the C06 tag-model families (sub-sampled, stated step) plus zero / trailing-zero weight vectors x predict_tags x 4 tails; the deserialised predictor must return exactly the tail and reproduce the complete public observation on all texts (score storing on and off); non-trivial = model has at least one pattern; evaluations count (model, text) pairs",
        true,
        &replay,
    )
}
