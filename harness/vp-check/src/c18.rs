//! C18 — no input drives the unchecked code out of bounds. Engine E7: the enumeration spaces of
//! other properties are re-executed in instrumented builds (the `checked` profile arms every
//! debug_assert! next to the unchecked accesses and the standard library's own precondition
//! checks for get_unchecked / unwrap_unchecked / str slicing; thorough adds an AddressSanitizer
//! build when it is available). The enumeration decides; the instrumented build is the monitor.
//! Sub-runs are child processes because a failed library precondition aborts.

use crate::report::*;
use serde_json::{json, Value};
use std::process::Command;

pub fn run(tier: Tier) -> ! {
    let chk = Check::new("C18", tier, "exploration");
    let subs: Vec<&str> = tier.pick(vec!["C01", "C02", "C03", "C04", "C05", "C06", "C14", "C15"], vec!["C01", "C02", "C03", "C04", "C05", "C06", "C08", "C14", "C15"]);
    let mut builds: Vec<(&str, String)> = vec![("checked", "/verif/target/checked/vp-check".to_string())];
    let asan = "/verif/target/asan/x86_64-unknown-linux-gnu/release/vp-check";
    if tier == Tier::Thorough && std::path::Path::new(asan).exists() {
        builds.push(("asan", asan.to_string()));
    }
    let sub_tier = "quick"; // the spaces are the quick spaces of the sub-checks (thorough adds C05 and the sanitizer build)
    let _ = std::fs::create_dir_all("/verif/target/c18");
    let mut per_sub = serde_json::Map::new();
    for (bname, bin) in &builds {
        if !std::path::Path::new(bin).exists() {
            machinery_error(&format!("{bin} not built (the check driver builds it)"));
        }
        for sub in &subs {
            let ev = format!("/verif/target/c18/{sub}.json");
            let _ = std::fs::remove_file(&ev);
            let out = Command::new(bin)
                .args([sub, sub_tier])
                .env("VERIF_C18", bname)
                .env("ASAN_OPTIONS", "detect_leaks=0:abort_on_error=1")
                .output()
                .unwrap_or_else(|e| machinery_error(&format!("cannot run {bin}: {e}")));
            let code = out.status.code();
            let stdout = String::from_utf8_lossy(&out.stdout).to_string();
            let stderr = String::from_utf8_lossy(&out.stderr).to_string();
            let evj: Option<Value> = std::fs::read_to_string(&ev).ok().and_then(|s| serde_json::from_str(&s).ok());
            let evals = evj.as_ref().and_then(|e| e["coverage"]["evaluations"].as_u64()).unwrap_or(0);
            let nontriv = evj.as_ref().and_then(|e| e["coverage"]["distinct_nontrivial"].as_u64()).unwrap_or(0);
            chk.eval(evals);
            chk.nontrivial(nontriv);
            per_sub.insert(format!("{bname}:{sub}"), json!({"exit": code, "evaluations": evals, "nontrivial": nontriv, "ignored_functional": evj.as_ref().map(|e| e["coverage"]["functional_violations_ignored_in_c18_mode"].clone())}));
            match code {
                Some(0) => {}
                Some(1) => {
                    // the sub-run already wrote replay files and VIOLATION lines (as property C18)
                    for l in stdout.lines().filter(|l| l.starts_with("VIOLATION") || l.starts_with("  what:")) {
                        say(l);
                    }
                    chk.violation(format!("precondition-failure build={bname} space={sub}"), format!("precondition failures while re-executing the {sub} space in the {bname} build (see the lines above)"), json!({"noreplay": true}));
                }
                Some(2) => machinery_error(&format!("sub-run {sub} in the {bname} build reported a machinery error:\n{}", stdout.lines().rev().take(5).collect::<Vec<_>>().join("\n"))),
                _ => {
                    // killed by a signal: library precondition check (abort), sanitizer report, or a real crash
                    let path = format!("/verif/replays/C18-{bname}-{sub}-crash.txt");
                    let tail: Vec<&str> = stderr.lines().rev().take(40).collect();
                    let _ = std::fs::write(&path, format!("command: VERIF_C18={bname} {bin} {sub} {sub_tier}\nstatus: {:?}\n{}\n", out.status, tail.into_iter().rev().collect::<Vec<_>>().join("\n")));
                    say(&format!("VIOLATION property=C18 replay={path}"));
                    say(&format!("  what: the {bname} build died ({:?}) while re-executing the {sub} space: {}", out.status, stderr.lines().filter(|l| l.contains("unsafe precondition") || l.contains("AddressSanitizer") || l.contains("PANIC")).next().unwrap_or("(no message)")));
                    chk.violation(format!("crash build={bname} space={sub}"), "instrumented build aborted".into(), json!({"noreplay": true}));
                }
            }
        }
    }
    chk.set("sub_runs", Value::Object(per_sub));
    chk.set("builds", json!(builds.iter().map(|b| b.0).collect::<Vec<_>>()));
    chk.sample(json!({"space": "C15", "build": "checked", "meaning": "every filter x text x label vector of C15 re-run with debug assertions and std precondition checks armed"}));
    chk.sample(json!({"space": "C08", "build": "checked", "meaning": "the whole history BFS + thread interleavings re-run instrumented"}));
    chk.assume("debug-assertions = on arms the authors' debug_assert!s and (Rust >= 1.78) the standard library's precondition checks for unchecked operations; violations that do not go through a checked precondition are only visible to the sanitizer build");
    chk.assume("functional mismatches seen in instrumented runs are ignored here: they belong to the property whose space is re-executed");
    // violations were already printed (with their own replay artefacts) by the sub-runs
    let n = chk.n_violations();
    let no_replay = |_: &Value| -> Option<(String, String)> { None };
    if n > 0 {
        // write evidence, then exit 1 without a second confirmation pass
        finish_preconfirmed(chk, "instrumented re-execution of the listed spaces", n);
    }
    chk.finish(
        "the enumeration spaces of C01 (incl. large-window edges), C02, C03, C04, C05 (parser totality + history BFS over all operations), C06, C14, C15 (thorough: + C08's interleavings and suffix-oracle BFS) re-executed in the checked profile (thorough: + AddressSanitizer build when present); only debug-assertion failures, library precondition aborts, sanitizer reports and invalid UTF-8 count; counts are the sums over sub-runs",
        true,
        &no_replay,
    )
}

fn finish_preconfirmed(chk: Check, rule: &str, n: u64) -> ! {
    chk.write_evidence_only(rule, n);
    std::process::exit(1)
}
