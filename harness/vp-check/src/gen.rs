//! Small-scope generators (all deterministic, lexicographic).

/// All strings over `alphabet` with length in `min..=max`, shortest first.
pub fn strings(alphabet: &[char], min: usize, max: usize) -> Vec<Vec<char>> {
    let mut out = vec![];
    for len in min..=max {
        for v in vectors(alphabet.len() as u8, len) {
            out.push(v.iter().map(|&i| alphabet[i as usize]).collect());
        }
    }
    out
}

/// All vectors in `0..k` ^ len (lexicographic).
pub fn vectors(k: u8, len: usize) -> Vec<Vec<u8>> {
    let mut out = vec![];
    let mut v = vec![0u8; len];
    loop {
        out.push(v.clone());
        let mut p = len;
        loop {
            if p == 0 {
                return out;
            }
            p -= 1;
            v[p] += 1;
            if v[p] < k {
                break;
            }
            v[p] = 0;
        }
    }
}

pub fn s(cs: &[char]) -> String {
    cs.iter().collect()
}

/// Deterministic 64-bit mix (splitmix64) for weight tables.
pub fn mix(mut x: u64) -> u64 {
    x = x.wrapping_add(0x9e3779b97f4a7c15);
    x = (x ^ (x >> 30)).wrapping_mul(0xbf58476d1ce4e5b9);
    x = (x ^ (x >> 27)).wrapping_mul(0x94d049bb133111eb);
    x ^ (x >> 31)
}

/// All subsets of `0..n` with size <= k, as index vectors, smallest first.
pub fn subsets_upto(n: usize, k: usize) -> Vec<Vec<usize>> {
    let mut out = vec![vec![]];
    let mut cur: Vec<Vec<usize>> = vec![vec![]];
    for _ in 0..k {
        let mut next = vec![];
        for s in &cur {
            let start = s.last().map_or(0, |&l| l + 1);
            for i in start..n {
                let mut t = s.clone();
                t.push(i);
                next.push(t);
            }
        }
        out.extend(next.iter().cloned());
        cur = next;
    }
    out
}

#[cfg(test)]
mod tests {
    use super::*;
    #[test]
    fn counts() {
        assert_eq!(strings(&['a', 'b', 'c'], 1, 3).len(), 3 + 9 + 27);
        assert_eq!(strings(&['a'], 0, 2).len(), 3);
        assert_eq!(vectors(3, 2).len(), 9);
        assert_eq!(vectors(3, 0).len(), 1);
        assert_eq!(subsets_upto(4, 2).len(), 1 + 4 + 6);
    }
}
