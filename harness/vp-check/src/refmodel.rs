//! Boring reference models. Nothing merged, nothing padded, nothing cached.
//!
//! Position law (README dictionary example `参政権 -> 0 -10000 10000 0`, the scorer unit-test
//! diagrams, the trainer's `rel_position`): an n-gram of `len` characters whose occurrence ends
//! at character index `e` (exclusive), under window `W`, gives weight `k` to boundary
//! `e-1-W+k`; a dictionary word of `m` characters ending at `e` gives weight `k` to boundary
//! `e-1-m+k` (boundary `i` lies between characters `i` and `i+1`); contributions outside
//! `0..n-1` vanish.

use crate::mirror::*;

pub const NOT_WORD: u8 = 0;
pub const WORD: u8 = 1;
pub const UNKNOWN: u8 = 2;

pub fn ctype(c: char) -> u8 {
    vaporetto::CharacterType::get_type(c) as u8
}

pub fn chars(s: &str) -> Vec<char> {
    s.chars().collect()
}

fn add_occurrences<T: PartialEq>(
    scores: &mut [i64],
    seq: &[T],
    pat: &[T],
    weights: &[i32],
    first_boundary_offset: i64, // boundary of weight 0 = e - 1 - first_boundary_offset
) {
    let n = seq.len();
    let l = pat.len();
    if l == 0 || l > n {
        return;
    }
    for e in l..=n {
        if seq[e - l..e] == *pat {
            for (k, &w) in weights.iter().enumerate() {
                let b = e as i64 - 1 - first_boundary_offset + k as i64;
                if b >= 0 && (b as usize) < scores.len() {
                    scores[b as usize] += w as i64;
                }
            }
        }
    }
}

/// Boundary scores of the pointwise linear model.
pub fn ref_score(m: &ModelSpec, text: &[char]) -> Vec<i64> {
    let n = text.len();
    let mut scores = vec![m.bias as i64; n.saturating_sub(1)];
    let types: Vec<u8> = text.iter().map(|&c| ctype(c)).collect();
    let wc = m.char_window_size as i64;
    let wt = m.type_window_size as i64;
    for d in &m.char_ngram_model {
        let pat = chars(&d.ngram);
        add_occurrences(&mut scores, text, &pat, &d.weights, wc);
    }
    for d in &m.dict_model {
        let pat = chars(&d.word);
        add_occurrences(&mut scores, text, &pat, &d.weights, pat.len() as i64);
    }
    for d in &m.type_ngram_model {
        add_occurrences(&mut scores, &types, &d.ngram, &d.weights, wt);
    }
    scores
}

pub fn ref_boundaries(scores: &[i64]) -> Vec<u8> {
    scores.iter().map(|&s| if s > 0 { WORD } else { NOT_WORD }).collect()
}

/// Tokens of a labelled sentence: maximal WORD-delimited segments that contain no UNKNOWN.
pub fn ref_tokens(labels: &[u8]) -> Vec<(usize, usize)> {
    let n = labels.len() + 1;
    let mut out = vec![];
    let mut start = 0;
    let mut clean = true;
    for (i, &b) in labels.iter().enumerate() {
        if b == WORD {
            if clean {
                out.push((start, i + 1));
            }
            start = i + 1;
            clean = true;
        } else if b == UNKNOWN {
            clean = false;
        }
    }
    if clean {
        out.push((start, n));
    }
    out
}

#[derive(Clone, Debug, PartialEq, Eq)]
pub struct RefTags {
    pub n_tags: usize,
    /// n * n_tags
    pub tags: Vec<Option<String>>,
    /// per character: candidates with scores for the token ending there, if it has a tag model
    pub cands: Vec<Option<Vec<Vec<(String, i64)>>>>,
}

/// Tags of the per-token linear classifiers. `None` when the model defines no tag category at
/// all (then tag filling leaves the sentence's tags as they were).
pub fn ref_tags(m: &ModelSpec, text: &[char], labels: &[u8]) -> Option<RefTags> {
    let n = text.len();
    let n_tags = m.tag_models.iter().map(|t| t.tags.len()).max().unwrap_or(0);
    if n_tags == 0 {
        return None;
    }
    let types: Vec<u8> = text.iter().map(|&c| ctype(c)).collect();
    let mut tags = vec![None; n * n_tags];
    let mut cands = vec![None; n];
    for (s, e) in ref_tokens(labels) {
        let surface: String = text[s..e].iter().collect();
        let Some(tm) = m.tag_models.iter().find(|t| t.token == surface) else { continue };
        let last = e - 1;
        let mut score: Vec<i64> = tm.bias.iter().map(|&b| b as i64).collect();
        for d in &tm.char_ngram_model {
            let pat = chars(&d.ngram);
            for tw in &d.weights {
                let end = last + tw.rel_position as usize + 1;
                if end <= n && pat.len() <= end && !pat.is_empty() && text[end - pat.len()..end] == pat[..] {
                    for (y, &x) in score.iter_mut().zip(&tw.weights) {
                        *y += x as i64;
                    }
                }
            }
        }
        for d in &tm.type_ngram_model {
            let pat = &d.ngram;
            for tw in &d.weights {
                let end = last + tw.rel_position as usize + 1;
                if end <= n && pat.len() <= end && !pat.is_empty() && types[end - pat.len()..end] == pat[..] {
                    for (y, &x) in score.iter_mut().zip(&tw.weights) {
                        *y += x as i64;
                    }
                }
            }
        }
        let mut off = 0;
        let mut cv = vec![];
        for (j, cat) in tm.tags.iter().enumerate() {
            if cat.len() >= 2 {
                let mut best = 0;
                for i in 1..cat.len() {
                    if score[off + i] > score[off + best] {
                        best = i;
                    }
                }
                tags[last * n_tags + j] = Some(cat[best].clone());
                cv.push(cat.iter().enumerate().map(|(i, t)| (t.clone(), score[off + i])).collect());
                off += cat.len();
            } else if cat.len() == 1 {
                tags[last * n_tags + j] = Some(cat[0].clone());
                cv.push(vec![(cat[0].clone(), 0)]);
            } else {
                cv.push(vec![]);
            }
        }
        cands[last] = Some(cv);
    }
    Some(RefTags { n_tags, tags, cands })
}

fn esc_tok(out: &mut String, s: &str) {
    for c in s.chars() {
        if c == ' ' || c == '\\' || c == '/' {
            out.push('\\');
        }
        out.push(c);
    }
}

/// Reference rendering of the tokenized format: tokens separated by one space, surfaces and
/// tags with ' ', '\\', '/' escaped by a backslash, `/tag` per tag up to the last present one.
pub fn ref_write_tokenized(text: &[char], labels: &[u8], n_tags: usize, tags: &[Option<String>]) -> String {
    let mut out = String::new();
    for (k, (s, e)) in ref_tokens(labels).into_iter().enumerate() {
        if k != 0 {
            out.push(' ');
        }
        let surf: String = text[s..e].iter().collect();
        esc_tok(&mut out, &surf);
        let ts = &tags[(e - 1) * n_tags..e * n_tags];
        let upto = ts.iter().rposition(|t| t.is_some()).map_or(0, |p| p + 1);
        for t in &ts[..upto] {
            out.push('/');
            if let Some(t) = t {
                esc_tok(&mut out, t);
            }
        }
    }
    out
}

#[cfg(test)]
mod tests {
    use super::*;
    #[test]
    fn tokens() {
        assert_eq!(ref_tokens(&[]), vec![(0, 1)]);
        assert_eq!(ref_tokens(&[1, 0, 1]), vec![(0, 1), (1, 3), (3, 4)]);
        assert_eq!(ref_tokens(&[2, 1, 2, 1, 0]), vec![(4, 6)]);
        assert_eq!(ref_tokens(&[1, 2]), vec![(0, 1)]);
    }
    #[test]
    fn readme_dictionary_example() {
        // README: 参政権 with weights 0 -10000 10000 0 forces 参|政権... second boundary non-word
        let m = ModelSpec {
            dict_model: vec![WordWeightRecord { word: "参政権".into(), weights: vec![0, -10000, 10000, 0], comment: "".into() }],
            char_window_size: 3,
            type_window_size: 2,
            ..Default::default()
        };
        let t = chars("外国人参政権");
        assert_eq!(ref_score(&m, &t), vec![0, 0, 0, -10000, 10000]);
    }
}
