pub mod c01;
pub mod gen;
pub mod mirror;
pub mod models;
pub mod obs;
pub mod refmodel;
pub mod report;
