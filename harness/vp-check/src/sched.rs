//! Engine E4 — every call-level interleaving of real OS threads sharing predictors.
//! Threads hand a baton to each other so that exactly one runs between scheduling points;
//! scheduling points are the API calls (the code under test contains no lock, atomic or channel
//! that a finer scheduler could intercept).

use crate::bfs::{Op, World};
use crate::obs::{observe, Obs};
use crate::report::*;
use serde_json::json;
use std::sync::{Condvar, Mutex};
use vaporetto::Sentence;

/// All sequences containing thread `t` exactly `counts[t]` times.
pub fn interleavings(counts: &[usize]) -> Vec<Vec<usize>> {
    fn rec(rem: &mut Vec<usize>, cur: &mut Vec<usize>, out: &mut Vec<Vec<usize>>) {
        if rem.iter().all(|&r| r == 0) {
            out.push(cur.clone());
            return;
        }
        for t in 0..rem.len() {
            if rem[t] > 0 {
                rem[t] -= 1;
                cur.push(t);
                rec(rem, cur, out);
                cur.pop();
                rem[t] += 1;
            }
        }
    }
    let mut out = vec![];
    rec(&mut counts.to_vec(), &mut vec![], &mut out);
    out
}

struct Baton {
    pos: Mutex<usize>,
    cv: Condvar,
}

/// Runs the thread programs under one schedule; returns each thread's final observation
/// (or the panic message).
pub fn run_schedule(w: &World, programs: &[Vec<Op>], schedule: &[usize]) -> Vec<Result<Obs, String>> {
    let baton = Baton { pos: Mutex::new(0), cv: Condvar::new() };
    let mut results: Vec<Result<Obs, String>> = vec![];
    std::thread::scope(|sc| {
        let mut hs = vec![];
        for (t, prog) in programs.iter().enumerate() {
            let baton = &baton;
            hs.push(sc.spawn(move || {
                let mut s = Sentence::default();
                let mut failed: Option<String> = None;
                for op in prog {
                    // wait for my turn
                    let mut pos = baton.pos.lock().unwrap();
                    while *pos < schedule.len() && schedule[*pos] != t {
                        pos = baton.cv.wait(pos).unwrap();
                    }
                    // run exactly one call while holding the baton
                    if failed.is_none() {
                        if let Err(p) = w.apply(&mut s, op) {
                            failed = Some(p);
                        }
                    }
                    *pos += 1;
                    baton.cv.notify_all();
                }
                match failed {
                    Some(p) => Err(p),
                    None => Ok(observe(&s, false)),
                }
            }));
        }
        for h in hs {
            results.push(h.join().unwrap_or_else(|_| Err("thread panicked outside a guarded call".into())));
        }
    });
    results
}

fn sequential(w: &World, prog: &[Op]) -> Result<Obs, String> {
    let mut s = Sentence::default();
    for op in prog {
        w.apply(&mut s, op)?;
    }
    Ok(observe(&s, false))
}

pub fn check_schedule(w: &World, programs: &[Vec<Op>], schedule: &[usize]) -> Option<(String, String)> {
    let got = run_schedule(w, programs, schedule);
    for (t, (g, prog)) in got.iter().zip(programs).enumerate() {
        let want = sequential(w, prog);
        if *g != want {
            let names: Vec<String> = prog.iter().map(|o| w.op_name(o)).collect();
            return Some((
                format!("interleaving-differs thread={t} program=[{}] schedule={schedule:?}", names.join(";")),
                format!("thread {t} running [{}] under schedule {schedule:?} observed {g:?}, sequentially {want:?}", names.join("; ")),
            ));
        }
    }
    None
}

pub struct SchedResult {
    pub schedules: u64,
    pub assignments: u64,
}

pub fn explore(w: &World, tier: Tier, chk: &Check) -> SchedResult {
    // thread program: update_raw(x); predict(P); [fill_tags]; a second round on another text
    let valid_raw = [0usize, 1, 2];
    let tagging: Vec<usize> = w.preds.iter().enumerate().filter(|(_, p)| p.predict_tags).map(|(i, _)| i).collect();
    let mut schedules = 0u64;
    let mut assignments = 0u64;
    let prog = |x: usize, p: usize, y: usize| -> Vec<Op> { vec![Op::UpRaw(x), Op::Predict(p), Op::Fill, Op::UpRaw(y), Op::Predict(p), Op::Fill] };
    // two threads x 4 calls (one round + update/predict of a second), all 70 interleavings
    let il2 = interleavings(&[4, 4]);
    let il3 = interleavings(&[3, 3, 3]);
    for &p1 in &tagging {
        for &p2 in &tagging {
            if tier == Tier::Quick && p1 != p2 && (p1, p2) != (tagging[0], tagging[1]) {
                continue;
            }
            for &x1 in &valid_raw {
                for &x2 in &valid_raw {
                    let programs = vec![prog(x1, p1, x2)[..4].to_vec(), prog(x2, p2, x1)[..4].to_vec()];
                    assignments += 1;
                    for sch in &il2 {
                        schedules += 1;
                        chk.eval(1);
                        if let Some((sig, what)) = check_schedule(w, &programs, sch) {
                            chk.violation(sig, what, json!({"mode": "schedule", "programs": programs, "schedule": sch}));
                        }
                    }
                }
            }
        }
    }
    // three threads x 3 calls sharing ONE predictor, all 1680 interleavings
    for &p in &tagging {
        let texts: Vec<[usize; 3]> = tier.pick(vec![[0, 1, 2]], vec![[0, 1, 2], [2, 0, 0], [1, 1, 1], [2, 2, 0]]);
        for xs in texts {
            let programs: Vec<Vec<Op>> = xs.iter().map(|&x| vec![Op::UpRaw(x), Op::Predict(p), Op::Fill]).collect();
            assignments += 1;
            for sch in &il3 {
                schedules += 1;
                chk.eval(1);
                if let Some((sig, what)) = check_schedule(w, &programs, sch) {
                    chk.violation(sig, what, json!({"mode": "schedule", "programs": programs, "schedule": sch}));
                }
            }
        }
    }
    chk.sample(json!({"threads": 3, "program": "update_raw(x_t); predict(P); fill_tags", "schedule": il3[777], "interleavings_per_assignment": il3.len()}));
    SchedResult { schedules, assignments }
}
