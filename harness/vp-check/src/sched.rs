//! Engine E4 — every call-level interleaving of real OS threads sharing predictors.
//! Threads hand a baton to each other so that exactly one runs between scheduling points;
//! scheduling points are the API calls (the code under test contains no lock, atomic or channel
//! that a finer scheduler could intercept).

use crate::bfs::{Op, World};
use crate::obs::{observe, Obs};
use crate::report::*;
use serde_json::json;
use std::sync::{Condvar, Mutex};
use vaporetto::Sentence;

/// All sequences containing thread `t` exactly `counts[t]` times.
pub fn interleavings(counts: &[usize]) -> Vec<Vec<usize>> {
    fn rec(rem: &mut Vec<usize>, cur: &mut Vec<usize>, out: &mut Vec<Vec<usize>>) {
        if rem.iter().all(|&r| r == 0) {
            out.push(cur.clone());
            return;
        }
        for t in 0..rem.len() {
            if rem[t] > 0 {
                rem[t] -= 1;
                cur.push(t);
                rec(rem, cur, out);
                cur.pop();
                rem[t] += 1;
            }
        }
    }
    let mut out = vec![];
    rec(&mut counts.to_vec(), &mut vec![], &mut out);
    out
}

struct Baton {
    pos: Mutex<usize>,
    cv: Condvar,
}

/// Runs the thread programs under one schedule; returns each thread's final observation
/// (or the panic message).
pub fn run_schedule(w: &World, programs: &[Vec<Op>], schedule: &[usize]) -> Vec<Result<Obs, String>> {
    let baton = Baton { pos: Mutex::new(0), cv: Condvar::new() };
    let mut results: Vec<Result<Obs, String>> = vec![];
    std::thread::scope(|sc| {
        let mut hs = vec![];
        for (t, prog) in programs.iter().enumerate() {
            let baton = &baton;
            hs.push(sc.spawn(move || {
                let mut s = Sentence::default();
                let mut failed: Option<String> = None;
                for op in prog {
                    // wait for my turn
                    let mut pos = baton.pos.lock().unwrap();
                    while *pos < schedule.len() && schedule[*pos] != t {
                        pos = baton.cv.wait(pos).unwrap();
                    }
                    // run exactly one call while holding the baton
                    if failed.is_none() {
                        if let Err(p) = w.apply(&mut s, op) {
                            failed = Some(p);
                        }
                    }
                    *pos += 1;
                    baton.cv.notify_all();
                }
                match failed {
                    Some(p) => Err(p),
                    None => Ok(observe(&s, false)),
                }
            }));
        }
        for h in hs {
            results.push(h.join().unwrap_or_else(|_| Err("thread panicked outside a guarded call".into())));
        }
    });
    results
}

fn sequential(w: &World, prog: &[Op]) -> Result<Obs, String> {
    let mut s = Sentence::default();
    for op in prog {
        w.apply(&mut s, op)?;
    }
    Ok(observe(&s, false))
}

pub fn check_schedule(w: &World, programs: &[Vec<Op>], schedule: &[usize]) -> Option<(String, String)> {
    // COLD predictors: a fresh world (never-used predictors) for the interleaved run and another
    // for each sequential baseline, so that state initialised on first use cannot be masked by
    // earlier schedules having warmed the predictors up
    let tier = if w.suffix_cap == 4 { Tier::Thorough } else { Tier::Quick };
    let mut needed: Vec<usize> = programs.iter().flatten().filter_map(|o| if let Op::Predict(i) = o { Some(*i) } else { None }).collect();
    needed.sort();
    needed.dedup();
    let cold = World::new_with(tier, Some(&needed));
    let got = run_schedule(&cold, programs, schedule);
    for (t, (g, prog)) in got.iter().zip(programs).enumerate() {
        let base = World::new_with(tier, Some(&needed));
        let want = sequential(&base, prog);
        if *g != want {
            let names: Vec<String> = prog.iter().map(|o| w.op_name(o)).collect();
            return Some((
                format!("interleaving-differs thread={t} program=[{}] schedule={schedule:?}", names.join(";")),
                format!("thread {t} running [{}] under schedule {schedule:?} observed {g:?}, sequentially {want:?}", names.join("; ")),
            ));
        }
    }
    None
}

pub struct SchedResult {
    pub schedules: u64,
    pub assignments: u64,
}

pub fn explore(w: &World, tier: Tier, chk: &Check) -> SchedResult {
    // thread program: update_raw(x); predict(P); [fill_tags]; a second round on another text
    let valid_raw = [0usize, 1, 2, 3, 4];
    let tagging: Vec<usize> = w.preds.iter().enumerate().filter(|(_, p)| p.predict_tags).map(|(i, _)| i).collect();
    let mut schedules = 0u64;
    let mut assignments = 0u64;
    let prog = |x: usize, p: usize, y: usize| -> Vec<Op> { vec![Op::UpRaw(x), Op::Predict(p), Op::Fill, Op::UpRaw(y), Op::Predict(p), Op::Fill] };
    // two threads x 4 calls (one round + update/predict of a second), all 70 interleavings
    let il2 = interleavings(&[4, 4]);
    let il3 = interleavings(&[3, 3, 3]);
    for &p1 in &tagging {
        for &p2 in &tagging {
            if tier == Tier::Quick && p1 != p2 && (p1, p2) != (tagging[0], tagging[1]) {
                continue;
            }
            for &x1 in &valid_raw {
                for &x2 in &valid_raw {
                    let programs = vec![prog(x1, p1, x2)[..4].to_vec(), prog(x2, p2, x1)[..4].to_vec()];
                    assignments += 1;
                    for sch in &il2 {
                        schedules += 1;
                        chk.eval(1);
                        if let Some((sig, what)) = check_schedule(w, &programs, sch) {
                            chk.violation(sig, what, json!({"mode": "schedule", "programs": programs, "schedule": sch}));
                        }
                    }
                }
            }
        }
    }
    // three threads x 3 calls sharing ONE predictor, all 1680 interleavings
    for &p in &tagging {
        let texts: Vec<[usize; 3]> = tier.pick(vec![[0, 1, 2], [3, 4, 3]], vec![[0, 1, 2], [2, 0, 0], [1, 1, 1], [2, 2, 0], [3, 4, 3], [4, 3, 1]]);
        for xs in texts {
            let programs: Vec<Vec<Op>> = xs.iter().map(|&x| vec![Op::UpRaw(x), Op::Predict(p), Op::Fill]).collect();
            assignments += 1;
            for sch in &il3 {
                schedules += 1;
                chk.eval(1);
                if let Some((sig, what)) = check_schedule(w, &programs, sch) {
                    chk.violation(sig, what, json!({"mode": "schedule", "programs": programs, "schedule": sch}));
                }
            }
        }
    }
    chk.sample(json!({"threads": 3, "program": "update_raw(x_t); predict(P); fill_tags", "schedule": il3[777], "interleavings_per_assignment": il3.len()}));
    SchedResult { schedules, assignments }
}

/// Free-running pass (no baton): the same thread bodies hammer shared predictors concurrently.
/// Meant to run in a ThreadSanitizer build — a cooperative scheduler's hand-offs are
/// happens-before edges that would blind the race detector, so this pass is separate. Returns the
/// number of (thread, iteration) observations compared; mismatches are reported as violations.
pub fn free_run(w: &World, chk: &Check, iterations: usize) -> u64 {
    let tagging: Vec<usize> = w.preds.iter().enumerate().filter(|(_, p)| p.predict_tags).map(|(i, _)| i).collect();
    let mut programs: Vec<Vec<Op>> = vec![];
    for (k, &p) in tagging.iter().enumerate() {
        for x in 0..3usize {
            programs.push(vec![Op::UpRaw(x), Op::Predict(p), Op::Fill, Op::UpRaw((x + k + 1) % 3), Op::Predict(p), Op::Fill]);
        }
    }
    // plus threads that use a tag-less predictor and filters on the same sentences
    programs.push(vec![Op::UpRaw(0), Op::Predict(0), Op::Filter(0), Op::UpRaw(2), Op::Predict(0), Op::Filter(2)]);
    programs.push(vec![Op::UpTok(1), Op::Predict(1), Op::Fill, Op::UpPart(1), Op::Predict(3), Op::Fill]);
    let expected: Vec<Result<Obs, String>> = programs.iter().map(|p| sequential(w, p)).collect();
    let compared = std::sync::atomic::AtomicU64::new(0);
    std::thread::scope(|sc| {
        for (t, prog) in programs.iter().enumerate() {
            let expected = &expected;
            let compared = &compared;
            sc.spawn(move || {
                let mut s = Sentence::default();
                for it in 0..iterations {
                    let mut failed = None;
                    for op in prog {
                        if let Err(p) = w.apply(&mut s, op) {
                            failed = Some(p);
                            break;
                        }
                    }
                    let got = match failed {
                        Some(p) => Err(p),
                        None => Ok(observe(&s, false)),
                    };
                    compared.fetch_add(1, std::sync::atomic::Ordering::Relaxed);
                    if got != expected[t] {
                        let names: Vec<String> = prog.iter().map(|o| w.op_name(o)).collect();
                        chk.violation(
                            format!("free-running-differs thread={t} program=[{}]", names.join(";")),
                            format!("iteration {it}: thread {t} observed {got:?} while other threads used the same predictors; sequentially {:?}", expected[t]),
                            json!({"mode": "free", "noreplay": true}),
                        );
                        return;
                    }
                }
            });
        }
    });
    compared.into_inner()
}

/// Cold-start pass: a NEVER-USED predictor is shared by threads that are released together by a
/// barrier; each thread's observation must equal the one obtained from a separate, warm predictor.
/// This is randomised stress (sampling), NOT exhaustive exploration: it exists because call-level
/// interleavings cannot reach the inside of a call, where lazily initialised shared state
/// (atomics, OnceCell, ...) would race. A mismatch it observes is real; its silence proves nothing.
pub fn cold_start(chk: &Check, rounds: usize, threads: usize) -> u64 {
    use vaporetto::Predictor;
    let specs = [(crate::bfs::model_tags2(), false), (crate::bfs::model_tags1(), true)];
    let texts = ["abab", "a", "あaあa𠀋b", "ab a", "ba", "aab", "あa", "b"];
    let mk = |spec: &crate::mirror::ModelSpec, store: bool| -> Predictor {
        let mut p = Predictor::new(spec.to_model().unwrap_or_else(|e| machinery_error(&e)), true).unwrap_or_else(|e| machinery_error(&e.to_string()));
        p.store_tag_scores(store);
        p
    };
    let run = |p: &Predictor, t: &str, store: bool| -> Result<Obs, String> {
        guard(|| {
            let mut s = Sentence::from_raw(t.to_string()).unwrap();
            p.predict(&mut s);
            s.fill_tags();
            observe(&s, store)
        })
    };
    let mut compared = 0u64;
    for (spec, store) in &specs {
        let warm = mk(spec, *store);
        let expected: Vec<Result<Obs, String>> = texts.iter().map(|t| run(&warm, t, *store)).collect();
        for round in 0..rounds {
            let cold = mk(spec, *store);
            let barrier = std::sync::Barrier::new(threads);
            let results: Vec<Result<Obs, String>> = std::thread::scope(|sc| {
                let hs: Vec<_> = (0..threads)
                    .map(|t| {
                        let (cold, barrier) = (&cold, &barrier);
                        let text = texts[(t + round) % texts.len()];
                        sc.spawn(move || {
                            barrier.wait();
                            run(cold, text, *store)
                        })
                    })
                    .collect();
                hs.into_iter().map(|h| h.join().unwrap_or_else(|_| Err("thread died".into()))).collect()
            });
            for (t, got) in results.iter().enumerate() {
                compared += 1;
                let want = &expected[(t + round) % texts.len()];
                if got != want {
                    chk.violation(
                        format!("cold-start-differs store={}", *store as u8),
                        format!("round {round}: thread {t} sharing a never-used predictor with {} other threads observed {got:?}; a warm predictor gives {want:?}", threads - 1),
                        json!({"mode": "cold-start", "noreplay": true, "round": round}),
                    );
                    return compared;
                }
            }
        }
    }
    compared
}
