use vp_check::report::{machinery_error, Tier};
use vp_check::*;

fn main() {
    let args: Vec<String> = std::env::args().collect();
    if args.len() < 3 {
        eprintln!("usage: vp-check <ID> quick|thorough | vp-check replay <file>");
        std::process::exit(2);
    }
    if let Err(e) = mirror::self_check() {
        machinery_error(&e);
    }
    if args[1] == "dump-world" {
        // debugging aid: what the BFS world's predictors do on a few texts
        let w = bfs::World::new(Tier::Quick);
        for t in args[2..].iter() {
            for (i, p) in w.preds.iter().enumerate() {
                let mut s = vaporetto::Sentence::from_raw(t.clone()).unwrap();
                p.p.predict(&mut s);
                if p.predict_tags {
                    s.fill_tags();
                }
                let mut buf = String::new();
                s.write_tokenized_text(&mut buf);
                println!("{t:?} pred{i} -> {buf}   scores {:?}", s.boundary_scores());
            }
        }
        return;
    }
    if args[1] == "replay" {
        let s = std::fs::read_to_string(&args[2]).unwrap_or_else(|e| machinery_error(&format!("{}: {e}", args[2])));
        let v: serde_json::Value = serde_json::from_str(&s).unwrap_or_else(|e| machinery_error(&format!("{e}")));
        let id = v["property"].as_str().unwrap_or("").to_string();
        report::quiet_panics();
        let r = match id.as_str() {
            "C01" => c01::replay(&v["case"]),
            "C02" => c02::replay(&v["case"]),
            "C03" => c03::replay(&v["case"]),
            "C04" => c04::replay(&v["case"]),
            "C05" => c05::replay(&v["case"]),
            "C06" => c06::replay(&v["case"]),
            "C07" => c07::replay(&v["case"]),
            "C08" => c08::replay(&v["case"]),
            "C09" => c09::replay(&v["case"]),
            "C10" => c10::replay(&v["case"]),
            "C11" => c11::replay(&v["case"]),
            "C12" => c12::replay(&v["case"]),
            "C13" => c13::replay(&v["case"]),
            "C14" => c14::replay(&v["case"]),
            "C15" => c15::replay(&v["case"]),
            "C17" => c17::replay(&v["case"]),
            "C19" => c19::replay(&v["case"]),
            "C20" => c20::replay(&v["case"]),
            _ => machinery_error(&format!("no replay for property {id}")),
        };
        match r {
            Some((sig, what)) => {
                println!("VIOLATION property={id} replay={}", args[2]);
                println!("  what: {what} [{sig}]");
                std::process::exit(1);
            }
            None => {
                println!("replay: property {id} holds on this case");
                std::process::exit(0);
            }
        }
    }
    let tier = match args[2].as_str() {
        "quick" => Tier::Quick,
        "thorough" => Tier::Thorough,
        _ => machinery_error("tier must be quick or thorough"),
    };
    match args[1].as_str() {
        "C01" => c01::run(tier),
        "C02" => c02::run(tier),
        "C03" => c03::run(tier),
        "C04" => c04::run(tier),
        "C05" => c05::run(tier),
        "C06" => c06::run(tier),
        "C07" => c07::run(tier),
        "C08" => c08::run(tier),
        "C08free" => c08::run_free(tier),
        "C09" => c09::run(tier),
        "C10" => c10::run(tier),
        "C11" => c11::run(tier),
        "C12" => c12::run(tier),
        "C13" => c13::run(tier),
        "C14" => c14::run(tier),
        "C15" => c15::run(tier),
        "C17" => c17::run(tier),
        "C18" => c18::run(tier),
        "C19" => c19::run(tier),
        "C20" => c20::run(tier),
        other => machinery_error(&format!("unknown property {other}")),
    }
}
