//! C20 — command-line tools agree with the library, line by line. Engine E6: the real `predict`
//! and `evaluate` binaries against the library pipeline executed in-process.

use crate::c19::{CLI_DIR, SCRATCH};
use crate::obs::cands_of;
use crate::report::*;
use rayon::prelude::*;
use serde::{Deserialize, Serialize};
use serde_json::{json, Value};
use std::io::Write;
use std::process::{Command, Stdio};
use vaporetto::{CharacterBoundary, CharacterType, Model, Predictor, Sentence};
use vaporetto_rules::sentence_filters::{ConcatGraphemeClustersFilter, KyteaWsConstFilter};
use vaporetto_rules::string_filters::KyteaFullwidthFilter;
use vaporetto_rules::{SentenceFilter, StringFilter};

#[derive(Clone, Debug, Serialize, Deserialize, PartialEq)]
pub struct Flags {
    pub model: usize, // 0 = without tag models, 1 = with
    pub no_norm: bool,
    pub predict_tags: bool,
    pub scores: bool,
    pub tag_scores: bool,
    pub wsconst: Vec<String>,
}

impl Flags {
    fn args(&self, model_path: &str) -> Vec<String> {
        let mut a = vec!["--model".to_string(), model_path.to_string()];
        if self.no_norm {
            a.push("--no-norm".into());
        }
        if self.predict_tags {
            a.push("--predict-tags".into());
        }
        if self.scores {
            a.push("--scores".into());
        }
        if self.tag_scores {
            a.push("--tag-scores".into());
        }
        for w in &self.wsconst {
            a.push("--wsconst".into());
            a.push(w.clone());
        }
        a
    }
    fn short(&self) -> String {
        format!("model={} no_norm={} predict_tags={} scores={} tag_scores={} wsconst={:?}", self.model, self.no_norm as u8, self.predict_tags as u8, self.scores as u8, self.tag_scores as u8, self.wsconst)
    }
}

/// 0 = without tag models, 1 = with tag models, 2 = with tag models and a bias that splits almost
/// everywhere (so that the wsconst filters really merge predicted tokens)
fn model_bytes(i: usize) -> Vec<u8> {
    match i {
        0 => crate::bfs::model_plain().to_bytes(),
        1 => crate::bfs::model_tags2().to_bytes(),
        _ => {
            let mut m = crate::bfs::model_tags2();
            m.bias = 60;
            m.to_bytes()
        }
    }
}
const N_MODELS: usize = 3;

pub fn model_path(i: usize) -> String {
    format!("{SCRATCH}/c20-model{i}.zst")
}

pub fn prepare_models() {
    let _ = std::fs::create_dir_all(SCRATCH);
    for i in 0..N_MODELS {
        let z = zstd::encode_all(&model_bytes(i)[..], 3).unwrap();
        std::fs::write(model_path(i), z).unwrap_or_else(|e| machinery_error(&e.to_string()));
    }
}

fn filters(ws: &[String]) -> Vec<Box<dyn SentenceFilter>> {
    ws.iter()
        .map(|w| -> Box<dyn SentenceFilter> {
            match w.as_str() {
                "D" => Box::new(KyteaWsConstFilter::new(CharacterType::Digit)),
                "R" => Box::new(KyteaWsConstFilter::new(CharacterType::Roman)),
                "H" => Box::new(KyteaWsConstFilter::new(CharacterType::Hiragana)),
                "T" => Box::new(KyteaWsConstFilter::new(CharacterType::Katakana)),
                "K" => Box::new(KyteaWsConstFilter::new(CharacterType::Kanji)),
                "O" => Box::new(KyteaWsConstFilter::new(CharacterType::Other)),
                "G" => Box::new(ConcatGraphemeClustersFilter),
                _ => machinery_error("unsupported wsconst in the harness"),
            }
        })
        .collect()
}

fn run_tool(tool: &str, args: &[String], stdin: &[u8]) -> (Option<i32>, Vec<u8>, String) {
    let mut child = Command::new(format!("{CLI_DIR}/{tool}"))
        .args(args)
        .stdin(Stdio::piped())
        .stdout(Stdio::piped())
        .stderr(Stdio::piped())
        .spawn()
        .unwrap_or_else(|e| machinery_error(&format!("cannot run {tool}: {e}")));
    {
        let mut si = child.stdin.take().unwrap();
        let _ = si.write_all(stdin);
    }
    let out = child.wait_with_output().unwrap_or_else(|e| machinery_error(&e.to_string()));
    (out.status.code(), out.stdout, String::from_utf8_lossy(&out.stderr).to_string())
}

/// What the library pipeline produces for one input line.
struct LineOut {
    accepted: bool,
    tokens: String,
    score_block: String,
    tag_block: String,
}

fn pipeline_line(pred: &Predictor, fl: &Flags, fs: &[Box<dyn SentenceFilter>], line: &str) -> LineOut {
    let input = if fl.no_norm { line.to_string() } else { KyteaFullwidthFilter.filter(line) };
    let Ok(mut s) = Sentence::from_raw(input) else {
        return LineOut { accepted: false, tokens: String::new(), score_block: String::new(), tag_block: String::new() };
    };
    pred.predict(&mut s);
    for f in fs {
        f.filter(&mut s);
    }
    if fl.predict_tags {
        s.fill_tags();
    }
    // boundaries and tags apply to the original, un-normalised line
    let mut o = Sentence::from_raw(line.to_string()).expect("normalisation keeps NUL-freeness and length");
    o.reset_tags(s.n_tags());
    o.boundaries_mut().copy_from_slice(s.boundaries());
    o.tags_mut().clone_from_slice(s.tags());
    let mut tokens = String::new();
    o.write_tokenized_text(&mut tokens);
    let mut score_block = String::new();
    {
        let cs: Vec<char> = s.as_raw_text().chars().collect();
        for (i, sc) in s.boundary_scores().iter().enumerate() {
            score_block.push_str(&format!("{i}:{}{} {sc}\n", cs[i], cs[i + 1]));
        }
        score_block.push('\n');
    }
    let mut tag_block = String::new();
    if fl.predict_tags {
        if let Ok(c) = cands_of(&s) {
            for (t, cands) in s.iter_tokens().zip(c) {
                tag_block.push_str(t.surface());
                for cat in cands {
                    tag_block.push('\t');
                    tag_block.push_str(&cat.iter().map(|(t, sc)| format!("{t}:{sc}")).collect::<Vec<_>>().join(","));
                }
                tag_block.push('\n');
            }
        } else {
            // no stored scores (e.g. a model without tag models): surfaces only
            for t in s.iter_tokens() {
                tag_block.push_str(t.surface());
                tag_block.push('\n');
            }
        }
        tag_block.push('\n');
    }
    LineOut { accepted: true, tokens, score_block, tag_block }
}

/// Does `out` match the expected per-line chunks? Rejected lines: an empty line, optionally
/// followed by an empty block per requested block kind (the statement fixes only the empty line).
fn matches(out: &str, lines: &[LineOut], fl: &Flags, want_tag_blocks: bool) -> bool {
    fn rec(out: &str, lines: &[LineOut], fl: &Flags, wtb: bool) -> bool {
        let Some((l, rest)) = lines.split_first() else { return out.is_empty() };
        if l.accepted {
            let mut exp = format!("{}\n", l.tokens);
            if fl.scores {
                exp.push_str(&l.score_block);
            }
            if wtb {
                exp.push_str(&l.tag_block);
            }
            out.strip_prefix(exp.as_str()).map_or(false, |o| rec(o, rest, fl, wtb))
        } else {
            let Some(o) = out.strip_prefix('\n') else { return false };
            let mut alts = vec![o];
            let mut cur = o;
            let blocks = fl.scores as usize + wtb as usize;
            for _ in 0..blocks {
                match cur.strip_prefix('\n') {
                    Some(n) => {
                        alts.push(n);
                        cur = n;
                    }
                    None => break,
                }
            }
            alts.into_iter().any(|a| rec(a, rest, fl, wtb))
        }
    }
    rec(out, lines, fl, want_tag_blocks)
}

pub fn check_predict(fl: &Flags, stream: &str) -> Option<(String, String)> {
    let (code, stdout, stderr) = run_tool("predict", &fl.args(&model_path(fl.model)), stream.as_bytes());
    let panicked = stderr.contains("panicked at");
    if code.is_none() || code == Some(101) || panicked {
        return Some(("predict-crash".into(), format!("predict exited with {code:?}: {}", stderr.lines().filter(|l| l.contains("panicked") || l.contains("must be")).collect::<Vec<_>>().join(" | "))));
    }
    let tag_without_predict = fl.tag_scores && !fl.predict_tags;
    if code != Some(0) {
        // a clean refusal of a meaningless flag combination is not a crash
        if tag_without_predict && stdout.is_empty() {
            return None;
        }
        return Some(("predict-exit".into(), format!("predict exited with {code:?}: {}", stderr.lines().last().unwrap_or(""))));
    }
    let Ok(out) = String::from_utf8(stdout) else { return Some(("predict-utf8".into(), "stdout is not UTF-8".into())) };
    let pred = Predictor::new(Model::read_slice(&model_bytes(fl.model)).unwrap().0, fl.predict_tags).map(|mut p| {
        if fl.tag_scores && fl.predict_tags {
            p.store_tag_scores(true);
        }
        p
    });
    let pred = pred.unwrap_or_else(|e| machinery_error(&e.to_string()));
    let fs = filters(&fl.wsconst);
    // BufRead::lines(): split after every '\n'; a line that ended in '\n' loses it and then ONE '\r' before it;
    // an unterminated last line is kept as it is (a trailing '\n' does not open another line)
    let lines: Vec<&str> = stream.split_inclusive('\n').map(|seg| match seg.strip_suffix('\n') { Some(x) => x.strip_suffix('\r').unwrap_or(x), None => seg }).collect();
    let outs: Vec<LineOut> = lines.iter().map(|l| pipeline_line(&pred, fl, &fs, l)).collect();
    let wtb = fl.tag_scores && fl.predict_tags;
    if matches(&out, &outs, fl, wtb) {
        return None;
    }
    // classify: line content or layout?
    let n_lines_ok = {
        // strip blocks: does the first output line equal the first expected token line?
        outs.first().map_or(true, |l| out.starts_with(&format!("{}\n", l.tokens)) || !l.accepted)
    };
    let kind = if !n_lines_ok { "predict-line" } else { "predict-layout" };
    let mut exp = String::new();
    for l in &outs {
        exp.push_str(&l.tokens);
        exp.push('\n');
        if l.accepted && fl.scores {
            exp.push_str(&l.score_block);
        }
        if l.accepted && wtb {
            exp.push_str(&l.tag_block);
        }
    }
    Some((kind.into(), format!("stdin {stream:?}: stdout {out:?}, library pipeline gives {exp:?}")))
}

#[derive(Clone, Debug, Serialize, Deserialize, PartialEq)]
pub struct EvalFlags {
    pub model: usize,
    pub no_norm: bool,
    pub predict_tags: bool,
    pub word: bool,
    pub wsconst: Vec<String>,
}

impl EvalFlags {
    fn args(&self) -> Vec<String> {
        let mut a = vec!["--model".to_string(), model_path(self.model)];
        if self.no_norm {
            a.push("--no-norm".into());
        }
        if self.predict_tags {
            a.push("--predict-tags".into());
        }
        a.push("--metric".into());
        a.push(if self.word { "word" } else { "char" }.into());
        for w in &self.wsconst {
            a.push("--wsconst".into());
            a.push(w.clone());
        }
        a
    }
    fn short(&self) -> String {
        format!("model={} no_norm={} predict_tags={} metric={} wsconst={:?}", self.model, self.no_norm as u8, self.predict_tags as u8, if self.word { "word" } else { "char" }, self.wsconst)
    }
}

pub fn check_evaluate(fl: &EvalFlags, stream: &str) -> Option<(String, String)> {
    let (code, stdout, stderr) = run_tool("evaluate", &fl.args(), stream.as_bytes());
    if code != Some(0) {
        return Some(("evaluate-exit".into(), format!("evaluate exited with {code:?}: {}", stderr.lines().last().unwrap_or(""))));
    }
    let out = String::from_utf8_lossy(&stdout).to_string();
    let pred = Predictor::new(Model::read_slice(&model_bytes(fl.model)).unwrap().0, fl.predict_tags).unwrap_or_else(|e| machinery_error(&e.to_string()));
    let fs = filters(&fl.wsconst);
    let (mut tp, mut tn, mut fp, mut fnn) = (0i32, 0i32, 0i32, 0i32);
    let (mut n_sys, mut n_ref, mut n_cor) = (0i32, 0i32, 0i32);
    for line in stream.lines() {
        if line.is_empty() {
            continue;
        }
        let r = Sentence::from_tokenized(line).unwrap_or_else(|e| machinery_error(&format!("reference line {line:?}: {e}")));
        let text = r.as_raw_text().to_string();
        let input = if fl.no_norm { text.clone() } else { KyteaFullwidthFilter.filter(&text) };
        let mut s = Sentence::from_raw(input).unwrap();
        pred.predict(&mut s);
        for f in &fs {
            f.filter(&mut s);
        }
        if fl.predict_tags {
            s.fill_tags();
        }
        for (rb, sb) in r.boundaries().iter().zip(s.boundaries()) {
            match (*rb == CharacterBoundary::WordBoundary, *sb == CharacterBoundary::WordBoundary) {
                (true, true) => tp += 1,
                (false, false) => tn += 1,
                (false, true) => fp += 1,
                (true, false) => fnn += 1,
            }
        }
        // Nagata: a system token is correct iff a reference token has the same span and the same tags
        let toks = |x: &Sentence| -> Vec<(usize, usize, Vec<Option<String>>)> { x.iter_tokens().map(|t| (t.start(), t.end(), t.tags().iter().map(|t| t.as_ref().map(|t| t.to_string())).collect())).collect() };
        let rt = toks(&r);
        let st = toks(&s);
        n_ref += rt.len() as i32;
        n_sys += st.len() as i32;
        n_cor += st.iter().filter(|t| rt.contains(t)).count() as i32;
    }
    let exp = if fl.word {
        let precision = f64::from(n_cor) / f64::from(n_sys);
        let recall = f64::from(n_cor) / f64::from(n_ref);
        let f1 = 2. * precision * recall / (precision + recall);
        format!("Precision: {precision}\nRecall: {recall}\nF1: {f1}\n")
    } else {
        let precision = f64::from(tp) / f64::from(tp + fp);
        let recall = f64::from(tp) / f64::from(tp + fnn);
        let f1 = 2. * precision * recall / (precision + recall);
        format!("Precision: {precision}\nRecall: {recall}\nF1: {f1}\nTP: {tp}, TN: {tn}, FP: {fp}, FN: {fnn}\n")
    };
    if out != exp {
        return Some(("evaluate-output".into(), format!("stdin {stream:?}: stdout {out:?}, computed from the library's predictions {exp:?}")));
    }
    None
}

pub fn replay(c: &Value) -> Option<(String, String)> {
    prepare_models();
    let stream = c["stream"].as_str()?;
    if c["tool"] == "predict" {
        let fl: Flags = serde_json::from_value(c["flags"].clone()).ok()?;
        check_predict(&fl, stream).map(|(k, w)| (format!("{k} {}", fl.short()), w))
    } else {
        let fl: EvalFlags = serde_json::from_value(c["flags"].clone()).ok()?;
        check_evaluate(&fl, stream).map(|(k, w)| (format!("{k} {}", fl.short()), w))
    }
}

pub fn run(tier: Tier) -> ! {
    let chk = Check::new("C20", tier, "exploration");
    quiet_panics();
    for t in ["predict", "evaluate"] {
        if !std::path::Path::new(&format!("{CLI_DIR}/{t}")).exists() {
            machinery_error(&format!("{t} binary not built (the check driver builds it)"));
        }
    }
    prepare_models();
    // predict
    let pool = ["", "a", "あい", "a b", "a/b", "a\\b", "ab12", "a\0b", "火星猫だ", "abab", "e\u{301}ab", "｢あ｣､a｡", "｢あい｣｡ｶ－", "ラ－、ア―ア─.–ー、", " ", "   ", "a𠮷é😀あ𠀋𠀋b", "abab ab12 あいa/b\\ 火星猫だ abab ab12 あいa/b 火星猫だ abab ab12 あいa 12ab ａｂ１２ abab ab12 あいa/b 火星猫だ"];
    let mut streams: Vec<String> = vec![];
    let maxl = tier.pick(2, 3);
    for n in 1..=maxl {
        for v in crate::gen::vectors(pool.len() as u8, n) {
            // 3-line streams: sub-sample to those that contain a rejected or tagged-token line (the stale-state cases)
            if n == 3 && !(v.contains(&0) || v.contains(&7)) || n == 3 && (v.contains(&13) || v.contains(&14) || v.contains(&15)) {
                continue;
            }
            let body: Vec<&str> = v.iter().map(|&i| pool[i as usize]).collect();
            streams.push(body.join("\n") + "\n");
            streams.push(body.join("\n"));
        }
    }
    // carriage returns: CRLF-terminated lines, a line ending in CR CR LF, lines made of CRs only, a CR inside a
    // line, an unterminated last line ending in CR - alone and next to ordinary lines
    for l in ["ab\r", "ab\r\r", "\r", "\r\r", "a\rb", "あ\r\r\r"] {
        for p in ["a b", "", "火星猫だ"] {
            for body in [vec![l], vec![l, p], vec![p, l], vec![l, l]] {
                streams.push(body.join("\n") + "\n");
                streams.push(body.join("\n"));
            }
        }
    }
    // very long lines (4000 and 20000 characters) between short and rejected ones
    for unit in tier.pick(vec!["ab12 あいa/b\\ 火星猫だ", "１２ａｂ－"], vec!["ab12 あいa/b\\ 火星猫だ", "a", "あ ", "１２ａｂ－"]) {
        for total in tier.pick(vec![3000usize], vec![4000usize, 20000]) {
            let long: String = unit.chars().cycle().take(total).collect();
            streams.push(format!("{long}\n"));
            streams.push(format!("a\n{long}\n\nab\n{long}"));
        }
    }
    let wss: Vec<Vec<String>> = vec![vec![], vec!["D".into()], vec!["G".into()], vec!["D".into(), "G".into()], vec!["R".into()], vec!["H".into(), "R".into()], vec!["T".into()], vec!["O".into()], vec!["K".into(), "O".into(), "T".into()]];
    let mut flagsets = vec![];
    for model in 0..N_MODELS {
        for bits in 0..16u8 {
            for ws in &wss {
                flagsets.push(Flags { model, no_norm: bits & 1 != 0, predict_tags: bits & 2 != 0, scores: bits & 4 != 0, tag_scores: bits & 8 != 0, wsconst: ws.clone() });
            }
        }
    }
    chk.set("predict_streams", json!(streams.len()));
    chk.set("predict_flag_sets", json!(flagsets.len()));
    let jobs: Vec<(&Flags, &String)> = flagsets.iter().flat_map(|f| streams.iter().map(move |s| (f, s))).collect();
    // quick: every flag set sees a rotating third of the streams (every stream is seen by many flag sets)
    jobs.par_iter().enumerate().for_each(|(i, (fl, stream))| {
        if tier == Tier::Quick && i % 3 != 0 {
            return;
        }
        chk.eval(1);
        if fl.scores || fl.tag_scores || stream.lines().count() > 1 {
            chk.nontrivial(1);
        }
        if let Some((k, what)) = check_predict(fl, stream) {
            chk.violation(format!("{k} {}", fl.short()), what, json!({"tool": "predict", "flags": fl, "stream": stream}));
        }
    });
    // evaluate
    // incl. sentences of exactly one character (nothing to predict, but one token to count and to tag): every
    // combination of the model's candidates for "a", so that one of them IS the prediction
    let untagged = ["a b", "ab a", "あ a1", "abab", "a ba b", "", "火星 猫 だ", "1 1a", "a\\/b a\\ b", "｢あ｣ ｡", "a", "a b\\ ", "\u{3000} a", "a \t"];
    let tagged = ["a/X/p b", "ab/Z/s a/Y/q", "あ/V a", "a/X/q b a/Y/p", "", "ab/Z/t", "b a/X/r", "a/X/p", "a/W/q", "a/X/q", "a/X/r", "a/Y/p", "a/Y/q", "a/Y/r", "ab/Z/s"];
    let mut ejobs = vec![];
    for model in 0..N_MODELS {
        for bits in 0..8u8 {
            for ws in &wss {
                let fl = EvalFlags { model, no_norm: bits & 1 != 0, predict_tags: bits & 2 != 0, word: bits & 4 != 0, wsconst: ws.clone() };
                // tagged references only where the tool predicts tags of the same arity
                let lines: &[&str] = if fl.predict_tags && model >= 1 { &tagged } else { &untagged };
                let nmax = tier.pick(2, 3);
                // tagged references ALSO where the tool produces no tags at all (no --predict-tags, or a model
                // without tag models): no token with a tag can then be correct
                if !(fl.predict_tags && model >= 1) {
                    for n in 1..=2 {
                        for v in crate::gen::vectors(tagged.len() as u8, n) {
                            let body: Vec<&str> = v.iter().map(|&i| tagged[i as usize]).collect();
                            if body.iter().all(|l| l.is_empty()) {
                                continue;
                            }
                            ejobs.push((fl.clone(), body.join("\n") + "\n"));
                        }
                    }
                }
                for n in 1..=nmax {
                    for v in crate::gen::vectors(lines.len() as u8, n) {
                        let body: Vec<&str> = v.iter().map(|&i| lines[i as usize]).collect();
                        if body.iter().all(|l| l.is_empty()) {
                            continue;
                        }
                        ejobs.push((fl.clone(), body.join("\n") + "\n"));
                        // the last line without its newline (n = 1 and 2), and with CR LF line ends
                        if n <= 2 && !body.last().map_or(true, |l| l.is_empty()) {
                            ejobs.push((fl.clone(), body.join("\n")));
                            // CR LF line ends, and a line that ends in CR CR LF (the CR is then its last token's last character)
                            ejobs.push((fl.clone(), body.join("\r\n") + "\r\n"));
                            if n == 1 {
                                ejobs.push((fl.clone(), body.join("\n") + "\r\r\n"));
                            }
                        }
                    }
                }
            }
        }
    }
    chk.set("evaluate_runs", json!(ejobs.len()));
    ejobs.par_iter().enumerate().for_each(|(i, (fl, stream))| {
        if tier == Tier::Quick && i % 4 != 0 {
            return;
        }
        chk.eval(1);
        chk.nontrivial(1);
        if let Some((k, what)) = check_evaluate(fl, stream) {
            chk.violation(format!("{k} {}", fl.short()), what, json!({"tool": "evaluate", "flags": fl, "stream": stream}));
        }
    });
    chk.sample(json!({"tool": "predict", "flags": "--no-norm --predict-tags --scores --tag-scores --wsconst D", "stdin": "a b\n\nabab"}));
    chk.sample(json!({"tool": "evaluate", "flags": "--metric word --predict-tags", "stdin": "a/X/p b\nab/Z/s a/Y/q\n"}));
    chk.assume("layout: tokenised line, newline, then the score block, then the tag-score block (the layout of the default mode and of the README); for a rejected line only the empty line is fixed, an empty block per requested block kind is tolerated");
    chk.assume("--tag-scores without --predict-tags is meaningless: a clean refusal (non-zero exit, empty stdout) or normal output without tag blocks is accepted, a panic is not");
    chk.finish(
        "predict: every stream of 1..2 (thorough: + the 3-line streams containing a rejected line) lines from an 18-line pool (plus streams with CRLF, CR CR LF, CR-only lines, an inner CR and an unterminated last line ending in CR; every adjacency of 1-, 2-, 3- and 4-byte characters in one line, empty, blank lines of one and three spaces, the four dash look-alikes whose character type changes under normalisation next to Other and Katakana characters, NUL, spaces, slashes, backslashes, half-width ASCII, half-width CJK punctuation whose full-width form has the same byte length, combining mark, multi-byte, one 100-character line; plus streams with 3000- (thorough: 4000- and 20000-) character lines) with and without final newline x every subset of {--no-norm, --predict-tags, --scores, --tag-scores} x 9 wsconst settings (none, D, G, D G, R, H R, T, O, K O T) x 3 models (without tags, with tags, with tags and a bias that splits almost everywhere so that filters really merge tokens) (quick: a rotating third of the stream x flag-set product); evaluate: every stream of 1..2/1..3 reference lines (tagged references also where the tool predicts no tags; with and without the final newline) (one-character sentences and lines whose first / last token is or ends in white space - an escaped space, U+3000, a tab - included) x {--no-norm} x {--predict-tags} x {char, word} x 9 wsconst settings x 3 models (quick: a quarter); stdout and exit status of the real binaries vs the library pipeline run in-process; non-trivial = blocks requested or more than one line",
        true,
        &replay,
    )
}
