//! C03 — the tokenized text format round-trips. Engine E1.

use crate::gen;
use crate::obs::{label, tokenized_of};
use crate::refmodel::*;
use crate::report::*;
use rayon::prelude::*;
use serde_json::{json, Value};
use vaporetto::Sentence;

fn trim(ts: &[Option<String>]) -> &[Option<String>] {
    let n = ts.iter().rposition(|t| t.is_some()).map_or(0, |p| p + 1);
    &ts[..n]
}

/// Sentence = text, labels in {N,W}, one tag list per token (on the token-final character).
pub fn check_roundtrip(text: &[char], labels: &[u8], tok_tags: &[Vec<Option<String>>]) -> Option<(String, String)> {
    let toks = ref_tokens(labels);
    assert_eq!(toks.len(), tok_tags.len());
    let n_tags = tok_tags.iter().map(|t| t.len()).max().unwrap_or(0);
    let t: String = text.iter().collect();
    let written = guard(|| {
        let mut s = Sentence::from_raw(t.clone()).expect("from_raw");
        for (b, &l) in s.boundaries_mut().iter_mut().zip(labels) {
            *b = label(l);
        }
        s.reset_tags(n_tags);
        for (&(_, e), ts) in toks.iter().zip(tok_tags) {
            for (j, tg) in ts.iter().enumerate() {
                s.tags_mut()[(e - 1) * n_tags + j] = tg.clone().map(|x| x.into());
            }
        }
        let owned = tokenized_of(&s);
        // the same sentence with BORROWED tag strings (what fill_tags and `"..".into()` store)
        let mut s2 = Sentence::from_raw(t.clone()).expect("from_raw");
        for (b, &l) in s2.boundaries_mut().iter_mut().zip(labels) {
            *b = label(l);
        }
        s2.reset_tags(n_tags);
        for (&(_, e), ts) in toks.iter().zip(tok_tags) {
            for (j, tg) in ts.iter().enumerate() {
                s2.tags_mut()[(e - 1) * n_tags + j] = tg.as_deref().map(std::borrow::Cow::Borrowed);
            }
        }
        let borrowed = tokenized_of(&s2);
        if borrowed != owned {
            return Err(format!("borrowed tag strings are written as {borrowed:?}, owned ones as {owned:?}"));
        }
        owned
    });
    let w = match written {
        Err(p) => return Some(("setup-panic".into(), p)),
        Ok(Err(p)) => return Some(("write-panic".into(), format!("write_tokenized_text failed (panic, invalid UTF-8 or ownership-dependent output): {p}"))),
        Ok(Ok(w)) => w,
    };
    for route in 0..3u8 {
    // route 0: the constructor; route 1: update_tokenized on a sentence that already holds another,
    // longer and more heavily tagged line (the parser writes into reused buffers there)
    let via = ["", "-via-update", "-via-same-shape-update"][route as usize];
    let parsed = guard(|| {
        let r = if route == 0 {
            Sentence::from_tokenized(&w)
        } else if route == 1 {
            let mut prior = Sentence::from_tokenized("q/T1/T2/T3/T4/T5 rr/U1/U2/U3/U4/U5 s/V1/V2/V3/V4/V5 ttt/W1/W2/W3/W4/W5 u/X1/X2/X3/X4/X5 v/Y1/Y2/Y3/Y4/Y5").expect("prior line");
            prior.update_tokenized(&w).map(|_| prior)
        } else {
            // a sentence of exactly the same shape with every tag slot filled
            let mut prior = Sentence::from_raw("z".repeat(text.len())).expect("prior");
            prior.reset_tags(n_tags);
            prior.tags_mut().iter_mut().for_each(|t| *t = Some("Z".into()));
            prior.update_tokenized(&w).map(|_| prior)
        };
        r.map(|p| {
            let toks: Vec<Vec<Option<String>>> = p.iter_tokens().map(|t| t.tags().iter().map(|x| x.as_ref().map(|x| x.to_string())).collect()).collect();
            (p.as_raw_text().to_string(), p.boundaries().iter().map(|&b| b as u8).collect::<Vec<u8>>(), toks, p.n_tags(), p.tags().len())
        })
    });
    match parsed {
        Err(p) => return Some((format!("parse-panic{via}"), format!("from_tokenized({w:?}) panicked: {p}"))),
        Ok(Err(e)) => return Some((format!("parse-err{via}"), format!("from_tokenized rejected written text {w:?}: {e}"))),
        Ok(Ok((raw, bs, ptags, pn, plen))) => {
            if raw != t {
                return Some((format!("text{via}"), format!("written {w:?} parses to text {raw:?}, expected {t:?}")));
            }
            if bs != labels {
                return Some((format!("boundaries{via}"), format!("written {w:?} parses to boundaries {bs:?}, expected {labels:?}")));
            }
            if plen != pn * text.len() {
                return Some((format!("shape{via}"), format!("parsed tags.len()={plen} != n_tags {pn} x chars {}", text.len())));
            }
            if ptags.len() != tok_tags.len() {
                return Some((format!("tokens{via}"), format!("parsed token count {} != {}", ptags.len(), tok_tags.len())));
            }
            for (k, (a, b)) in ptags.iter().zip(tok_tags).enumerate() {
                if trim(a) != trim(b) {
                    return Some((format!("tags{via}"), format!("token {k}: written {w:?} parses to tags {:?}, expected {:?}", trim(a), trim(b))));
                }
            }
        }
    }
    }
    None
}

/// write(parse(x)) is a fixpoint of parse-then-write for every accepted x.
pub fn check_idempotent(x: &str) -> (bool, Option<(String, String)>) {
    // a panic of the *first* parse is not acceptance: that is C05's domain (parser totality)
    if !matches!(guard(|| Sentence::from_tokenized(x).is_ok()), Ok(true)) {
        return (false, None);
    }
    let r = guard(|| {
        let Ok(p) = Sentence::from_tokenized(x) else { return Ok(None) };
        let w1 = tokenized_of(&p)?;
        let p2 = match Sentence::from_tokenized(&w1) {
            Ok(p2) => p2,
            Err(e) => return Err(format!("re-parse of {w1:?} failed: {e}")),
        };
        let w2 = tokenized_of(&p2)?;
        if p2.as_raw_text() != p.as_raw_text() || p2.boundaries() != p.boundaries() {
            return Err(format!("re-parse of {w1:?} changed text/boundaries"));
        }
        Ok(Some((w1, w2)))
    });
    match r {
        Err(p) => (true, Some(("idem-panic".into(), p))),
        Ok(Err(e)) => (true, Some(("idem-reparse".into(), e))),
        Ok(Ok(None)) => (false, None),
        Ok(Ok(Some((w1, w2)))) => {
            if w1 != w2 {
                (true, Some(("idem".into(), format!("write(parse(x)) = {w1:?} but write(parse(that)) = {w2:?}"))))
            } else {
                (true, None)
            }
        }
    }
}

fn lists(pool: &[Option<&str>], maxlen: usize) -> Vec<Vec<Option<String>>> {
    let mut out = vec![];
    for len in 0..=maxlen {
        for v in gen::vectors(pool.len() as u8, len) {
            out.push(v.iter().map(|&i| pool[i as usize].map(|s| s.to_string())).collect());
        }
    }
    out
}

fn sig(kind: &str, text: &[char], labels: &[u8], tok_tags: &[Vec<Option<String>>]) -> String {
    format!("{kind} text={:?} labels={} tags={:?}", gen::s(text), labels.iter().map(|&l| ['N', 'W'][l as usize]).collect::<String>(), tok_tags)
}

fn case(text: &[char], labels: &[u8], tok_tags: &[Vec<Option<String>>]) -> Value {
    json!({"kind": "roundtrip", "text": gen::s(text), "labels": labels, "tags": tok_tags})
}

pub fn replay(c: &Value) -> Option<(String, String)> {
    if c["kind"] == "idem" {
        let x = c["x"].as_str()?;
        return check_idempotent(x).1.map(|(k, w)| (format!("{k} x={x:?}"), w));
    }
    let text: Vec<char> = c["text"].as_str()?.chars().collect();
    let labels: Vec<u8> = serde_json::from_value(c["labels"].clone()).ok()?;
    let tags: Vec<Vec<Option<String>>> = serde_json::from_value(c["tags"].clone()).ok()?;
    if let Some(l) = c["label"].as_str() {
        return check_roundtrip(&text, &labels, &tags).map(|(k, w)| (format!("{k} {l}"), w.chars().take(300).collect()));
    }
    check_roundtrip(&text, &labels, &tags).map(|(k, w)| (sig(&k, &text, &labels, &tags), w))
}

pub fn run(tier: Tier) -> ! {
    let chk = Check::new("C03", tier, "exploration");
    quiet_panics();
    let report = |text: &[char], labels: &[u8], tt: &[Vec<Option<String>>]| {
        chk.eval(1);
        if text.iter().any(|c| " /\\".contains(*c)) || tt.iter().any(|l| !l.is_empty()) {
            chk.nontrivial(1);
        }
        if let Some((k, what)) = check_roundtrip(text, labels, tt) {
            chk.violation(sig(&k, text, labels, tt), what, case(text, labels, tt));
        }
    };
    // (i) untagged: every text x every {N,W} vector
    let sigma1 = ['a', ' ', '/', '\\', 'あ', '𠀋'];
    let texts = gen::strings(&sigma1, 1, tier.pick(5, 6));
    texts.par_iter().for_each(|text| {
        for labels in gen::vectors(2, text.len() - 1) {
            let nt = labels.iter().filter(|&&l| l == 1).count() + 1;
            report(text, &labels, &vec![vec![]; nt]);
        }
    });
    chk.set("part_i_texts", json!(texts.len()));
    // (i') enriched alphabet at shorter length: characters whose low byte equals a delimiter
    // (U+0120 / U+012F / U+015C / U+012D / U+017C), non-ASCII whitespace (U+3000, U+0085), a tab,
    // one character per UTF-8 length
    let enriched = ['a', ' ', '/', '\\', 'Ġ', 'į', 'Ŝ', 'ĭ', 'ż', '\u{3000}', '\t', 'é', 'あ', '𠀋', '\u{85}'];
    let texts_e = gen::strings(&enriched, 1, tier.pick(3, 4));
    texts_e.par_iter().for_each(|text| {
        for labels in gen::vectors(2, text.len() - 1) {
            let nt = labels.iter().filter(|&&l| l == 1).count() + 1;
            report(text, &labels, &vec![vec![]; nt]);
            // and the same string as the tag of a single token
            if labels.iter().all(|&l| l == 0) {
                report(&['x'], &[], &[vec![Some(gen::s(text))]]);
            }
        }
    });
    chk.set("part_i_enriched_texts", json!(texts_e.len()));
    // (i'') every Unicode scalar value (NUL excluded) as a one-character token carrying itself as its tag,
    // and between two ordinary tokens ("a c b", all three tagged with c): no character outside the
    // delimiters may be treated specially by the writer or the parser
    {
        let all: Vec<char> = (1u32..=0x10FFFF).filter_map(char::from_u32).collect();
        chk.set("part_i_all_scalar_values", json!(all.len()));
        all.par_iter().for_each(|&c| {
            let t = Some(c.to_string());
            report(&[c], &[], &[vec![t.clone()]]);
            if tier == Tier::Thorough || (c as u32) < 0x3100 || (c as u32) % 7 == 0 {
                report(&['a', c, 'b'], &[1, 1], &[vec![t.clone()], vec![None, t.clone()], vec![t.clone()]]);
                report(&['a', c], &[0], &[vec![t.clone(), t.clone()]]);
            }
        });
    }
    // (ii) 1-3 tokens x every per-token tag list
    let tagpool: Vec<Option<&str>> = vec![None, Some("x"), Some("/"), Some("\\"), Some(" "), Some("あ"), Some("a/b"), Some("x "), Some("あ/𠀋\\"), Some("\u{3000}\t")];
    let surfaces: [&[char]; 3] = [&['a'], &['あ', 'b'], &['/', ' ']];
    let plan: Vec<(usize, usize)> = tier.pick(vec![(1, 3), (2, 2), (3, 2)], vec![(1, 4), (2, 3), (3, 2)]);
    for &(ntok, maxlen) in &plan {
        let ls = lists(&tagpool, maxlen);
        // enumerate ls^ntok via mixed radix
        let total = ls.len().pow(ntok as u32);
        (0..total).into_par_iter().for_each(|mut idx| {
            let mut tt = vec![];
            let mut text = vec![];
            let mut labels = vec![];
            for k in 0..ntok {
                tt.push(ls[idx % ls.len()].clone());
                idx /= ls.len();
                if k > 0 {
                    labels.push(1);
                }
                for (j, &c) in surfaces[k].iter().enumerate() {
                    if j > 0 {
                        labels.push(0);
                    }
                    text.push(c);
                }
            }
            report(&text, &labels, &tt);
        });
        chk.add("part_ii_cases", total as u64);
    }
    // (iii) cross product on reduced pools
    let sigma3 = ['a', ' ', '/', '\\'];
    let pool3: Vec<Option<&str>> = vec![None, Some("x"), Some("/"), Some(" "), Some("\\")];
    let ls3 = lists(&pool3, tier.pick(1, 2));
    let texts3 = gen::strings(&sigma3, 1, 3);
    texts3.par_iter().for_each(|text| {
        for labels in gen::vectors(2, text.len() - 1) {
            let nt = labels.iter().filter(|&&l| l == 1).count() + 1;
            let total = ls3.len().pow(nt as u32);
            for mut idx in 0..total {
                let mut tt = vec![];
                for _ in 0..nt {
                    tt.push(ls3[idx % ls3.len()].clone());
                    idx /= ls3.len();
                }
                report(text, &labels, &tt);
            }
        }
    });
    // (v) threshold sizes: the number of tags of one token, of tokens of a sentence, of characters of one token and
    // of characters of one tag around 255/256 and 1 KiB (thorough also 4 KiB and u16); short signatures
    {
        let sizes: Vec<usize> = tier.pick(vec![254usize, 255, 256, 257, 300, 1025], vec![254, 255, 256, 257, 300, 1025, 4097, 65535, 65536, 65537]);
        let mut cases: Vec<(String, Vec<char>, Vec<u8>, Vec<Vec<Option<String>>>)> = vec![];
        let tg = |i: usize| -> Option<String> { if i % 7 == 3 { None } else { Some(format!("t{}", i % 11)) } };
        for &k in &sizes {
            // k tags on the first / middle / last of three tokens "ab cd ef"; the others carry 0 or 2 tags
            for pos in 0..3usize {
                for other in [0usize, 2] {
                    let mut tt: Vec<Vec<Option<String>>> = (0..3).map(|_| (0..other).map(|i| Some(format!("o{i}"))).collect()).collect();
                    tt[pos] = (0..k).map(tg).collect();
                    *tt[pos].last_mut().unwrap() = Some("last".into());
                    cases.push((format!("{k}-tags-on-token-{pos}-others-{other}"), "abcdef".chars().collect(), vec![0, 1, 0, 1, 0], tt));
                }
            }
            // k one-character tokens, every third with two tags
            {
                let text: Vec<char> = (0..k).map(|i| ['a', 'あ', '/', 'b'][i % 4]).collect();
                let tt: Vec<Vec<Option<String>>> = (0..k).map(|i| if i % 3 == 0 { vec![tg(i), Some("y".into())] } else { vec![] }).collect();
                cases.push((format!("{k}-tokens"), text, vec![1; k - 1], tt));
            }
            // one token of k characters between two short ones, tagged
            {
                let mut text: Vec<char> = vec!['x'];
                text.extend((0..k).map(|i| ['a', ' ', 'あ', '\\'][i % 4]));
                text.push('y');
                let mut labels = vec![0u8; k + 1];
                labels[0] = 1;
                labels[k] = 1;
                cases.push((format!("{k}-character-token"), text, labels, vec![vec![Some("p".into())], vec![Some("q".into()), None, Some("r".into())], vec![]]));
            }
            // one tag of k characters
            {
                let tag: String = (0..k).map(|i| ['t', '/', 'あ', ' '][i % 4]).collect();
                cases.push((format!("{k}-character-tag"), vec!['a', 'b'], vec![1], vec![vec![Some(tag.clone())], vec![None, Some(tag)]]));
            }
        }
        // a character that must be escaped at EVERY byte offset around the block sizes (64, 128, 256, 512, 1 KiB;
        // thorough also 4 KiB, 8 KiB, 64 KiB) inside one surface and inside one tag, after 1-byte and after
        // 3-byte filler (a writer that escapes through a fixed-size scratch buffer meets the special character
        // at every fill level)
        {
            let mut offs: Vec<usize> = (0..=3).collect();
            for b in tier.pick(vec![64usize, 128, 256, 512, 1024], vec![64, 128, 256, 512, 1024, 4096, 8192, 65536]) {
                offs.extend(b - 6..=b + 6);
            }
            for &f in &offs {
                for sp in [' ', '/', '\\'] {
                    for filler3 in [false, true] {
                        let mut body: Vec<char> = if filler3 { std::iter::repeat('あ').take(f / 3).chain(std::iter::repeat('a').take(f % 3)).collect() } else { vec!['a'; f] };
                        body.push(sp);
                        body.extend(['a', sp, 'あ']);
                        let n = body.len();
                        // as the middle token of three
                        let mut text = vec!['x'];
                        text.extend(body.iter());
                        text.push('y');
                        let mut labels = vec![0u8; n + 1];
                        labels[0] = 1;
                        labels[n] = 1;
                        cases.push((format!("escape-at-byte-{f}-{:?}-filler3={}-in-surface", sp, filler3 as u8), text, labels, vec![vec![], vec![Some("t".into())], vec![]]));
                        // as a tag
                        let tag: String = body.iter().collect();
                        cases.push((format!("escape-at-byte-{f}-{:?}-filler3={}-in-tag", sp, filler3 as u8), vec!['a', 'b'], vec![1], vec![vec![None, Some(tag)], vec![Some("u".into())]]));
                    }
                }
            }
        }
        chk.set("part_v_threshold_cases", json!(cases.len()));
        cases.par_iter().for_each(|(label, text, labels, tt)| {
            chk.eval(1);
            chk.nontrivial(1);
            if let Some((k, what)) = check_roundtrip(text, labels, tt) {
                let what: String = what.chars().take(300).collect();
                chk.violation(format!("{k} {label}"), what, json!({"kind": "roundtrip", "text": gen::s(text), "labels": labels, "tags": tt, "label": label}));
            }
        });
    }
    // (iv) idempotence on every accepted string
    let sigma4 = ['a', ' ', '/', '\\', 'あ'];
    let l4 = tier.pick(9, 12);
    let accepted = std::sync::atomic::AtomicU64::new(0);
    for len in 0..=l4 {
        let total = sigma4.len().pow(len as u32);
        (0..total).into_par_iter().for_each(|mut idx| {
            let mut x = String::new();
            for _ in 0..len {
                x.push(sigma4[idx % sigma4.len()]);
                idx /= sigma4.len();
            }
            chk.eval(1);
            let (acc, v) = check_idempotent(&x);
            if acc {
                accepted.fetch_add(1, std::sync::atomic::Ordering::Relaxed);
                chk.nontrivial(1);
            }
            if let Some((k, what)) = v {
                chk.violation(format!("{k} x={x:?}"), what, json!({"kind": "idem", "x": x}));
            }
        });
    }
    chk.set("part_iv_max_len", json!(l4));
    chk.set("part_iv_accepted_strings", json!(accepted.into_inner()));
    chk.sample(json!({"kind": "roundtrip", "text": "a /", "labels": "WN", "tags": [[" "], ["a/b", null, "x "]]}));
    chk.sample(json!({"kind": "idempotence", "x": "a\\ /\\/ あ"}));
    chk.assume("tags sit on token-final characters (the writer documents that others are ignored)");
    chk.finish(
        "(i) all texts x all {N,W} vectors untagged, plus every Unicode scalar value as a token and as a tag; (ii) 1-3 tokens x all per-token tag lists over 9 hostile tags (incl. an escapable character right after a multi-byte one); (iii) cross product on reduced pools; (iv) all strings up to part_iv_max_len over {a,' ','/','\\\\',あ} for write-after-parse idempotence; non-trivial = delimiter in text or any tag list / accepted string; distinct by construction",
        true,
        &replay,
    )
}
