//! C12 — tag models reflect exactly the tags seen in training. Engine E5.

use crate::gen;
use crate::mirror::ModelSpec;
use crate::obs::label;
use crate::refmodel::*;
use crate::report::*;
use crate::train::*;
use rayon::prelude::*;
use serde_json::{json, Value};
use std::collections::{BTreeMap, BTreeSet, HashMap};
use vaporetto::{Predictor, Sentence, VerifFeature};

/// token -> per category: set of observed tags; plus which tokens are "required" / "optional".
struct Observed {
    tags: BTreeMap<String, Vec<BTreeSet<String>>>,
    required: BTreeSet<String>,
    optional: BTreeSet<String>,
}

fn token_occurrences(line: &Line) -> Vec<(String, Vec<Option<String>>, bool)> {
    let s = parse_line(line);
    let labels: Vec<u8> = s.boundaries().iter().map(|&b| b as u8).collect();
    let text: Vec<char> = s.as_raw_text().chars().collect();
    let n_tags = s.n_tags();
    let tags: Vec<Option<String>> = s.tags().iter().map(|t| t.as_ref().map(|t| t.to_string())).collect();
    ref_tokens(&labels).into_iter().map(|(a, b)| (text[a..b].iter().collect(), tags[(b - 1) * n_tags..b * n_tags].to_vec(), n_tags > 0)).collect()
}

fn observed(corpus: &Corpus) -> Observed {
    let mut tags: BTreeMap<String, Vec<BTreeSet<String>>> = BTreeMap::new();
    let mut with_tags = BTreeSet::new();
    let mut without = BTreeSet::new();
    for l in &corpus.lines {
        for (tok, ts, _) in token_occurrences(l) {
            if ts.iter().any(|t| t.is_some()) {
                with_tags.insert(tok.clone());
                let e = tags.entry(tok).or_default();
                for (j, t) in ts.iter().enumerate() {
                    if e.len() <= j {
                        e.resize(j + 1, BTreeSet::new());
                    }
                    if let Some(t) = t {
                        e[j].insert(t.clone());
                    }
                }
            } else {
                without.insert(tok);
            }
        }
    }
    let mut required = with_tags.clone();
    let mut optional: BTreeSet<String> = without.difference(&with_tags).cloned().collect();
    let mut dict_seen = BTreeSet::new();
    for l in &corpus.tag_dict {
        for (tok, ts, _) in token_occurrences(&(false, l.clone())) {
            if !dict_seen.insert(tok.clone()) {
                continue; // the first dictionary entry wins
            }
            if !ts.iter().any(|t| t.is_some()) {
                continue;
            }
            if with_tags.contains(&tok) {
                continue; // corpus tags take precedence
            }
            if without.contains(&tok) {
                // occurs untagged in the corpus and tagged in the dictionary: the statement does
                // not decide this case; accept either
                optional.insert(tok);
                continue;
            }
            required.insert(tok.clone());
            let e = tags.entry(tok).or_default();
            for (j, t) in ts.iter().enumerate() {
                if e.len() <= j {
                    e.resize(j + 1, BTreeSet::new());
                }
                if let Some(t) = t {
                    e[j].insert(t.clone());
                }
            }
        }
    }
    for t in &required {
        optional.remove(t);
    }
    Observed { tags, required, optional }
}

pub fn check_case(cfg: &Config, corpus: &Corpus, evals: &[(Vec<char>, Vec<u8>)]) -> (bool, Option<(String, String)>) {
    let (model, spec, trace): (vaporetto::Model, ModelSpec, vaporetto::VerifTrainTrace) = match train_once(cfg, corpus) {
        Err(_) | Ok(Trained::Err(_)) => return (false, None), // totality is C11
        Ok(Trained::Ok(b)) => *b,
    };
    let obs = observed(corpus);
    // clause 1: exactly one tag model per required token; nothing outside required + optional
    let mut seen = BTreeSet::new();
    for tm in &spec.tag_models {
        if !seen.insert(tm.token.clone()) {
            return (true, Some(("duplicate-token".into(), format!("two tag models for token {:?}", tm.token))));
        }
        if !obs.required.contains(&tm.token) && !obs.optional.contains(&tm.token) {
            return (true, Some(("unexpected-token".into(), format!("tag model for token {:?} which never occurs with tags", tm.token))));
        }
    }
    for t in &obs.required {
        if !seen.contains(t) {
            return (true, Some(("missing-token".into(), format!("no tag model for token {t:?}, which occurs with tags in the corpus or only in the tag dictionary"))));
        }
    }
    // clause 2: per category exactly the distinct observed tags, each once; vector sizes
    for tm in &spec.tag_models {
        let empty = vec![];
        let want = obs.tags.get(&tm.token).unwrap_or(&empty);
        let ncat = tm.tags.len().max(want.len());
        for j in 0..ncat {
            let got: Vec<String> = tm.tags.get(j).cloned().unwrap_or_default();
            let gs: BTreeSet<String> = got.iter().cloned().collect();
            if gs.len() != got.len() {
                return (true, Some(("duplicate-candidate".into(), format!("token {:?} category {j}: candidates {got:?} contain a duplicate", tm.token))));
            }
            let ws = want.get(j).cloned().unwrap_or_default();
            if obs.required.contains(&tm.token) && gs != ws {
                return (true, Some(("candidate-set".into(), format!("token {:?} category {j}: candidates {got:?}, observed tags {ws:?}", tm.token))));
            }
        }
        let n_class: usize = tm.tags.iter().filter(|c| c.len() >= 2).map(|c| c.len()).sum();
        if tm.bias.len() != n_class {
            return (true, Some(("bias-size".into(), format!("token {:?}: bias has {} entries, {} trainable candidates", tm.token, tm.bias.len(), n_class))));
        }
        for d in tm.char_ngram_model.iter().flat_map(|d| &d.weights).chain(tm.type_ngram_model.iter().flat_map(|d| &d.weights)) {
            if d.weights.len() != n_class {
                return (true, Some(("weight-size".into(), format!("token {:?}: a tag weight vector has {} entries, {} trainable candidates", tm.token, d.weights.len(), n_class))));
            }
        }
    }
    // the trainer's quantised tag classifiers are exactly what the learners' raw outputs dictate
    if let Some(v) = check_trace_against_learner(&trace) {
        return (true, Some(v));
    }
    // the learner's function: (token, category, class) -> bias, (.., feature) -> weight
    let mut class_of: HashMap<(String, usize, String), usize> = HashMap::new();
    for (tok, cat, cls, tag) in &trace.tag_classes {
        class_of.insert((tok.clone(), *cat, tag.clone()), *cls);
    }
    let mut bias: HashMap<(String, usize, usize), i32> = HashMap::new();
    for (tok, cat, cls, b) in &trace.tag_biases {
        bias.insert((tok.clone(), *cat, *cls), *b);
    }
    let mut weight: HashMap<(String, usize, usize, VerifFeature), i32> = HashMap::new();
    for (tok, cat, cls, f, w) in &trace.tag_weights {
        weight.insert((tok.clone(), *cat, *cls, f.clone()), *w);
    }
    // clause 2b: the learner saw exactly the documented tag features: for every trainable category
    // of every token, the features known to the classifier are the union, over the corpus
    // occurrences of the token that carry a tag in that category, of the n-grams containing the
    // token plus 1..N further characters (relative position = characters past the token end)
    {
        use std::collections::BTreeSet as Set;
        let mut seen_feats: HashMap<(String, usize), Set<VerifFeature>> = HashMap::new();
        for (tok, cat, _cls, f, _w) in &trace.tag_weights {
            seen_feats.entry((tok.clone(), *cat)).or_default().insert(f.clone());
        }
        let mut want_feats: HashMap<(String, usize), Set<VerifFeature>> = HashMap::new();
        for l in &corpus.lines {
            let sent = parse_line(l);
            let labels: Vec<u8> = sent.boundaries().iter().map(|&b| b as u8).collect();
            let text: Vec<char> = sent.as_raw_text().chars().collect();
            let n_tags = sent.n_tags();
            for (a, b) in ref_tokens(&labels) {
                let surf: String = text[a..b].iter().collect();
                for j in 0..n_tags {
                    if sent.tags()[(b - 1) * n_tags + j].is_some() {
                        want_feats.entry((surf.clone(), j)).or_default().extend(ref_tag_features(cfg, &text, a, b));
                    }
                }
            }
        }
        for tm in &spec.tag_models {
            for (j, cat) in tm.tags.iter().enumerate() {
                if cat.len() < 2 {
                    continue;
                }
                let key = (tm.token.clone(), j);
                let got = seen_feats.get(&key).cloned().unwrap_or_default();
                let want = want_feats.get(&key).cloned().unwrap_or_default();
                if got != want {
                    let missing: Vec<_> = want.difference(&got).collect();
                    let extra: Vec<_> = got.difference(&want).collect();
                    return (true, Some(("tag-feature-set".into(), format!("token {:?} category {j}: the tag classifier was trained without {missing:?} and with unexpected {extra:?}", tm.token))));
                }
            }
        }
    }
    // clause 3: behaviour on evaluation sentences (boundaries forced)
    let mut pred = match guard(|| Predictor::new(model, true)) {
        Err(p) => return (true, Some(("predictor-panic".into(), p))),
        Ok(Err(e)) => return (true, Some(("predictor-err".into(), e.to_string()))),
        Ok(Ok(p)) => p,
    };
    pred.store_tag_scores(true);
    let n_tags_model = spec.tag_models.iter().map(|t| t.tags.len()).max().unwrap_or(0);
    for (text, labels) in evals {
        let ts = gen::s(text);
        let r = guard(|| {
            let mut s = Sentence::from_raw(ts.clone()).unwrap();
            pred.predict(&mut s);
            for (b, &l) in s.boundaries_mut().iter_mut().zip(labels) {
                *b = label(l);
            }
            s.fill_tags();
            let tags: Vec<Option<String>> = s.tags().iter().map(|t| t.as_ref().map(|t| t.to_string())).collect();
            let cands = if n_tags_model > 0 { crate::obs::cands_of(&s) } else { Ok(vec![]) };
            (s.n_tags(), tags, cands)
        });
        let (n_tags, tags, cands) = match r {
            Err(p) => return (true, Some(("eval-panic".into(), format!("predict/fill_tags panicked on {ts:?}: {p}")))),
            Ok(x) => x,
        };
        if n_tags_model == 0 {
            if tags.iter().any(|t| t.is_some()) {
                return (true, Some(("tags-without-model".into(), format!("no tag categories were trained but {ts:?} received tags {tags:?}"))));
            }
            continue;
        }
        if n_tags != n_tags_model || tags.len() != n_tags * text.len() {
            return (true, Some(("eval-shape".into(), format!("n_tags {n_tags} / tags.len {} on {ts:?}, model has {n_tags_model} categories", tags.len()))));
        }
        let cands = match cands {
            Err(p) => return (true, Some(("cands-panic".into(), p))),
            Ok(c) => c,
        };
        let toks = ref_tokens(labels);
        let mut is_end = vec![false; text.len()];
        for (k, &(a, b)) in toks.iter().enumerate() {
            is_end[b - 1] = true;
            let surf: String = text[a..b].iter().collect();
            let slot = &tags[(b - 1) * n_tags..b * n_tags];
            match spec.tag_models.iter().find(|t| t.token == surf) {
                None => {
                    if slot.iter().any(|t| t.is_some()) {
                        return (true, Some(("unseen-token-tagged".into(), format!("token {surf:?} has no tag model but got tags {slot:?} in {ts:?}"))));
                    }
                }
                Some(tm) => {
                    let feats = ref_tag_features(cfg, text, a, b);
                    for (j, cat) in tm.tags.iter().enumerate() {
                        match cat.len() {
                            0 => {
                                if slot[j].is_some() {
                                    return (true, Some(("empty-category-tagged".into(), format!("token {surf:?} category {j} has no candidate but got {:?}", slot[j]))));
                                }
                            }
                            1 => {
                                if slot[j].as_ref() != Some(&cat[0]) {
                                    return (true, Some(("single-candidate".into(), format!("token {surf:?} category {j}: only candidate {:?}, got {:?} in {ts:?}", cat[0], slot[j]))));
                                }
                            }
                            _ => {
                                if !slot[j].as_ref().map_or(false, |t| cat.contains(t)) {
                                    return (true, Some(("not-a-candidate".into(), format!("token {surf:?} category {j}: got {:?}, candidates {cat:?} in {ts:?}", slot[j]))));
                                }
                                // score equality with the learner's quantised classifier
                                for (c, tag) in cat.iter().enumerate() {
                                    let Some(&cls) = class_of.get(&(surf.clone(), j, tag.clone())) else {
                                        return (true, Some(("unknown-class".into(), format!("candidate {tag:?} of token {surf:?} category {j} was never a class of the learner"))));
                                    };
                                    let mut want = *bias.get(&(surf.clone(), j, cls)).unwrap_or(&0) as i64;
                                    for f in &feats {
                                        want += *weight.get(&(surf.clone(), j, cls, f.clone())).unwrap_or(&0) as i64;
                                    }
                                    let got = cands.get(k).and_then(|t| t.get(j)).and_then(|cs| cs.get(c)).cloned();
                                    if got.as_ref().map(|g| (g.0.as_str(), g.1 as i64)) != Some((tag.as_str(), want)) {
                                        return (
                                            true,
                                            Some(("tag-score".into(), format!("token {surf:?} [{a},{b}) in {ts:?} category {j} candidate {tag:?}: stored score {got:?}, learned classifier gives {want} (features {feats:?})"))),
                                        );
                                    }
                                }
                            }
                        }
                    }
                    for j in tm.tags.len()..n_tags {
                        if slot[j].is_some() {
                            return (true, Some(("extra-category-tagged".into(), format!("token {surf:?} has {} categories but slot {j} = {:?}", tm.tags.len(), slot[j]))));
                        }
                    }
                }
            }
        }
        for (i, e) in is_end.iter().enumerate() {
            if !e && tags[i * n_tags..(i + 1) * n_tags].iter().any(|t| t.is_some()) {
                return (true, Some(("tag-off-token-end".into(), format!("character {i} of {ts:?} (labels {labels:?}) is not the end of a clean token but carries tags"))));
            }
        }
    }
    (true, None)
}

pub fn corpora(tier: Tier) -> Vec<Corpus> {
    let variants = ["a/X/p", "a/Y/q", "a/X", "a//p", "a", "ab/Z/q", "ab/W/s", "あ/V", "あ/U", "b/S/r"];
    let filler = (false, "cd c d dc".to_string());
    let mut out = vec![];
    // all ordered pairs of two-token sentences from the variant pool, two sentences per corpus
    let mut sents = vec![];
    for x in &variants {
        for y in &variants {
            sents.push(format!("{x} {y}"));
        }
    }
    let step = tier.pick(7, 2);
    let mut k = 0usize;
    for i in 0..sents.len() {
        for j in (i + 1..sents.len()).step_by(step) {
            k += 1;
            let dict = match k % 4 {
                0 => vec!["c/D/E".to_string(), "a/Q".to_string()],
                1 => vec!["zz/D".to_string()],
                // dictionary-only tokens whose FIRST / MIDDLE category is absent while a later one is given
                2 => vec!["e//G".to_string(), "f/H//I".to_string(), "ab//K".to_string()],
                _ => vec![],
            };
            out.push(Corpus { name: format!("pair[{} | {}] dict={dict:?}", sents[i], sents[j]), lines: vec![(false, sents[i].clone()), (false, sents[j].clone()), filler.clone()], tag_dict: dict });
        }
    }
    // systematic tag matrices
    out.extend(tag_matrix_corpora(2, 2, 1));
    out.extend(tag_matrix_corpora(3, 2, tier.pick(11, 2)));
    out.extend(tag_matrix_corpora(2, 3, tier.pick(11, 2)));
    out.extend(tag_matrix_corpora(4, 2, tier.pick(97, 13)));
    // longer and multi-byte tokens, four categories, the same token at sentence start / middle / end
    out.push(Corpus { name: "long-tokens".into(), lines: vec![(false, "abc/T/u ab/S c/V/w".into()), (false, "c/V/x abc/T/v a ab/S".into()), (false, "abc/R/u abc/T/u".into()), (false, "cd c d dc".into())], tag_dict: vec!["abcd/Q/q".into()] });
    out.push(Corpus { name: "multibyte-tokens".into(), lines: vec![(false, "𠀋/K/1 あ/H 𠀋あ/M/2/3/4".into()), (false, "あ/H2 𠀋/K/2 𠀋あ/M/2/3/5".into()), (false, "𠀋/L/1 あ".into()), (false, "cd c d dc".into())], tag_dict: vec![] });
    out.push(Corpus { name: "positions".into(), lines: vec![(false, "a/X b a/Y".into()), (false, "b a/X b".into()), (false, "a/Y b b".into()), (false, "b b a/X".into()), (false, "cd c d dc".into())], tag_dict: vec![] });
    // sentences that consist of ONE token only (such an occurrence has no tag feature at all, but it
    // still counts as an observation of its tags), alone and next to ordinary occurrences
    out.push(Corpus { name: "one-token-sentences".into(), lines: vec![(false, "a/X".into()), (false, "a/Y b".into()), (false, "b/S".into()), (false, "ab/Z/q".into()), (false, "cd c d dc".into())], tag_dict: vec!["ab/D".into(), "q/F".into()] });
    out.push(Corpus { name: "only-one-token-sentences".into(), lines: vec![(false, "a/X".into()), (false, "a/Y".into()), (false, "あ/V/w".into()), (true, "a/Z".into()), (false, "c d".into())], tag_dict: vec!["あ/D/E".into()] });
    // a LARGE tag dictionary (66 000 single-tag tokens that sort before every corpus token): the model has more
    // than 65 536 tag models and the ambiguous corpus tokens come last
    out.push(Corpus {
        name: "large-tag-dictionary".into(),
        lines: vec![(false, "a/X b a/Y".into()), (false, "b a/X b".into()), (false, "a/Y b b".into()), (false, "b b a/X".into()), (false, "あ/V/w b あ/U/w".into()), (false, "cd c d dc".into())],
        tag_dict: (0..66_000).map(|i| format!("{i:05}/D")).collect(),
    });
    // partially annotated sentences
    for (n, lines) in [
        ("partial-1", vec![(true, "a/X|b-a/Y".to_string()), (true, "a b/Q|a/Z".to_string()), (true, "a/Y|a/X".to_string())]),
        ("partial-2", vec![(true, "a/X b|a/Y".to_string()), (true, "a-b/Z|a/X|a-b/W".to_string())]),
        ("partial-3", vec![(true, "あ/V|a/X/p|あ/U".to_string()), (false, "a/X/q あ/V".to_string())]),
    ] {
        let mut l = lines;
        l.push(filler.clone());
        out.push(Corpus { name: n.into(), lines: l, tag_dict: vec!["d/T".into()] });
    }
    out
}

pub fn configs(tier: Tier) -> Vec<Config> {
    let mut out = vec![];
    let ns: Vec<(u8, u8, u8, u8)> = tier.pick(vec![(2, 1, 2, 1), (2, 2, 2, 2), (1, 2, 1, 3), (3, 3, 2, 1)], vec![(2, 1, 2, 1), (2, 2, 2, 2), (1, 2, 1, 3), (3, 3, 2, 1), (3, 1, 3, 3), (1, 3, 3, 2), (2, 3, 1, 1), (0, 2, 2, 0)]);
    let solvers: Vec<u8> = tier.pick(vec![1, 5], vec![0, 1, 2, 3, 4, 5, 6, 7]);
    // no tag features at all (both n-gram sizes 0) and character features only / type features only
    let ns: Vec<(u8, u8, u8, u8)> = ns.into_iter().chain([(2, 0, 2, 0), (1, 0, 2, 2), (2, 2, 1, 0)]).collect();
    for &(cw, cn, tw, tn) in &ns {
        for &sv in &solvers {
            out.push(Config { charw: cw, charn: cn, typew: tw, typen: tn, dict: vec![], bucket: 1, solver: sv });
        }
    }
    out
}

fn sig(k: &str, cfg: &Config, corpus: &Corpus) -> String {
    format!("{k} {} corpus={}", cfg.short(), corpus.name)
}

fn evals() -> Vec<(Vec<char>, Vec<u8>)> {
    let mut v = vec![];
    for t in gen::strings(&['a', 'b', 'あ'], 1, 3) {
        for l in gen::vectors(3, t.len() - 1) {
            v.push((t.clone(), l));
        }
    }
    v
}

pub fn replay(c: &Value) -> Option<(String, String)> {
    mute_stdout();
    let cfg: Config = serde_json::from_value(c["cfg"].clone()).ok()?;
    let corpus: Corpus = serde_json::from_value(c["corpus"].clone()).ok()?;
    let ev = evals();
    // training is randomised: look (up to 8 trainings) for the recorded kind of violation first
    let stored = c["kind"].as_str().unwrap_or("").to_string();
    let mut last = None;
    for _ in 0..8 {
        if let Some((k, w)) = check_case(&cfg, &corpus, &ev).1 {
            if k == stored {
                return Some((sig(&k, &cfg, &corpus), w));
            }
            last = Some((sig(&k, &cfg, &corpus), w));
        }
    }
    last
}

pub fn run(tier: Tier) -> ! {
    let chk = Check::new("C12", tier, "exploration");
    quiet_panics();
    mute_stdout();
    chk.randomised.store(true, std::sync::atomic::Ordering::Relaxed);
    let cfgs = configs(tier);
    let cps = corpora(tier);
    let ev = evals();
    chk.set("configurations", json!(cfgs.len()));
    chk.set("corpora", json!(cps.len()));
    chk.set("evaluation_sentences", json!(ev.len()));
    let trained = std::sync::atomic::AtomicU64::new(0);
    cps.par_iter().enumerate().for_each(|(ci, corpus)| {
        for (k, cfg) in cfgs.iter().enumerate() {
            // every corpus with a rotating half of the configurations (quick) / all (thorough)
            if tier == Tier::Quick && (k + ci) % 4 != 0 {
                continue;
            }
            // the large dictionary with two configurations only (cost)
            if corpus.tag_dict.len() > 1000 && k / 4 > 1 {
                continue;
            }
            chk.eval(1);
            let (t, v) = check_case(cfg, corpus, &ev);
            if t {
                trained.fetch_add(1, std::sync::atomic::Ordering::Relaxed);
                chk.nontrivial(1);
            }
            if let Some((k, what)) = v {
                chk.violation(sig(&k, cfg, corpus), what, json!({"cfg": cfg, "corpus": corpus, "kind": k}));
            }
        }
    });
    chk.set("trainings_that_returned_a_model", json!(trained.into_inner()));
    chk.sample(json!({"corpus": ["a/X a//p", "ab/Z/q a/Y", "cd c d dc"], "tag_dict": ["c/D/E", "a/Q"], "cfg": "cw=2 cn=2 tw=2 tn=2 solver=5"}));
    chk.assume("a token that occurs in the corpus only untagged (alone or also in the tag dictionary) may or may not get a (tagless / dictionary) model: the statement does not decide it, so either is accepted");
    chk.assume("score clause uses the quantised classifier and the class-id -> tag mapping recorded by the verif-hooks trace of the same run");
    chk.finish(
        "corpora = sub-sampled pairs of two-token sentences over 10 tagged-token variants (0-2 categories, absent tags, ambiguous tags) plus a tag-free filler sentence, with three tag-dictionary variants, plus partially annotated corpora; x window/n-gram sizes (n <, =, > window) x solvers: real training; black-box clauses on the mirror-decoded model (token set, candidate sets without duplicates, vector sizes), behaviour on every text up to 3 characters over {a,b,あ} with every forced {N,W,U} vector, and stored candidate scores equal to the learner's recorded quantised classifier on the documented tag features; non-trivial = a model was trained; evaluations count (corpus, configuration) pairs",
        true,
        &replay,
    )
}
