//! C19 — dictionary edits act as documented; dump and replace are lossless.
//! E1 on the API (replace_dictionary, WordWeightRecord::new) + E6 on the real manipulate_model.

use crate::gen::{self, mix};
use crate::mirror::{ModelSpec, WordWeightRecord as WR};
use crate::models::{self, Entry};
use crate::refmodel::*;
use crate::report::*;
use rayon::prelude::*;
use serde_json::{json, Value};
use std::process::Command;
use vaporetto::{Predictor, Sentence, WordWeightRecord};

pub const CLI_DIR: &str = "/verif/target/cli/release";
pub const SCRATCH: &str = "/verif/target/scratch";

fn dict_entry(word: &str, salt: u64) -> WR {
    let n = word.chars().count() + 1;
    WR { word: word.into(), weights: (0..n).map(|k| (mix(salt ^ (k as u64) << 16) % 2001) as i32 - 1000).collect(), comment: format!("c{salt}") }
}

/// API: replace the dictionary of `base` with `new`; the model must differ only in the
/// dictionary and scores must move by exactly ref(new) - ref(old).
pub fn check_replace(base: &ModelSpec, new: &[WR], texts: &[Vec<char>]) -> Option<(String, String)> {
    let r = guard(|| {
        let mut m = base.to_model().unwrap_or_else(|e| machinery_error(&e));
        let recs: Result<Vec<WordWeightRecord>, _> = new.iter().map(|d| WordWeightRecord::new(d.word.clone(), d.weights.clone(), d.comment.clone())).collect();
        let recs = recs.map_err(|e| format!("WordWeightRecord::new rejected a well-formed record: {e}"))?;
        m.replace_dictionary(recs);
        let got: Vec<WR> = m.dictionary().iter().map(|r| WR { word: r.get_word().into(), weights: r.get_weights().to_vec(), comment: r.get_comment().into() }).collect();
        if got != new {
            return Err(format!("dictionary() after replace_dictionary: {got:?} != {new:?}"));
        }
        let after = ModelSpec::from_model(&m).unwrap_or_else(|e| machinery_error(&e));
        let mut want = base.clone();
        want.dict_model = new.to_vec();
        if after != want {
            return Err(format!("model after replace differs from the base outside the dictionary: {after:?}"));
        }
        let p_old = Predictor::new(base.to_model().unwrap(), false).map_err(|e| e.to_string())?;
        let p_new = Predictor::new(m, false).map_err(|e| e.to_string())?;
        for t in texts {
            let ts: String = t.iter().collect();
            let mut s1 = Sentence::from_raw(ts.clone()).unwrap();
            let mut s2 = Sentence::from_raw(ts.clone()).unwrap();
            p_old.predict(&mut s1);
            p_new.predict(&mut s2);
            let only_old = ModelSpec { dict_model: base.dict_model.clone(), char_window_size: 1, type_window_size: 1, ..Default::default() };
            let only_new = ModelSpec { dict_model: new.to_vec(), char_window_size: 1, type_window_size: 1, ..Default::default() };
            let d_old = ref_score(&only_old, t);
            let d_new = ref_score(&only_new, t);
            for i in 0..t.len() - 1 {
                let diff = s2.boundary_scores()[i] as i64 - s1.boundary_scores()[i] as i64;
                if diff != d_new[i] - d_old[i] {
                    return Err(format!("text {ts:?} boundary {i}: score moved by {diff}, dictionary entries say {}", d_new[i] - d_old[i]));
                }
            }
        }
        Ok(())
    });
    match r {
        Err(p) => Some(("replace-panic".into(), p)),
        Ok(Err(e)) => Some(("replace".into(), e)),
        Ok(Ok(())) => None,
    }
}

pub fn check_record_len(word: &str, n_weights: usize) -> Option<(String, String)> {
    let want_ok = n_weights == word.chars().count() + 1;
    match guard(|| WordWeightRecord::new(word.to_string(), vec![1; n_weights], "".into()).is_ok()) {
        Err(p) => Some(("record-panic".into(), p)),
        Ok(ok) if ok != want_ok => Some(("record-len".into(), format!("WordWeightRecord::new({word:?}, {n_weights} weights) ok={ok}, expected ok={want_ok}"))),
        _ => None,
    }
}

fn run_tool(args: &[&str]) -> Result<(i32, String), String> {
    let out = Command::new(format!("{CLI_DIR}/manipulate_model")).args(args).output().map_err(|e| format!("cannot run manipulate_model: {e}"))?;
    Ok((out.status.code().unwrap_or(-1), String::from_utf8_lossy(&out.stderr).to_string()))
}

fn write_zst(path: &str, bytes: &[u8]) {
    let z = zstd::encode_all(bytes, 3).unwrap_or_else(|e| machinery_error(&format!("zstd: {e}")));
    std::fs::write(path, z).unwrap_or_else(|e| machinery_error(&format!("{path}: {e}")));
}

/// CLI: dump, replace with the untouched dump, compare decoded bytes; then break one weight count.
pub fn check_cli(dict: &[WR], tag: &str) -> Option<(String, String)> {
    let dir = format!("{SCRATCH}/c19-{tag}");
    let _ = std::fs::create_dir_all(&dir);
    let mut base = models::build(&[Entry::Char("a".into()), Entry::Type(vec![2, 3])], 2, 2, -3, 0);
    base.dict_model = dict.to_vec();
    models::attach_tags(&mut base);
    let bytes = base.to_bytes();
    let (min, csv, mout, bad, mbad) = (format!("{dir}/in.zst"), format!("{dir}/dict.csv"), format!("{dir}/out.zst"), format!("{dir}/bad.csv"), format!("{dir}/bad.zst"));
    write_zst(&min, &bytes);
    let res = (|| -> Result<(), (String, String)> {
        let (rc, err) = run_tool(&["--model-in", &min, "--dump-dict", &csv]).unwrap_or_else(|e| machinery_error(&e));
        if rc != 0 {
            return Err(("cli-dump-failed".into(), format!("--dump-dict exited with {rc}: {err}")));
        }
        let (rc, err) = run_tool(&["--model-in", &min, "--replace-dict", &csv, "--model-out", &mout]).unwrap_or_else(|e| machinery_error(&e));
        if rc != 0 {
            return Err(("cli-replace-failed".into(), format!("--replace-dict with the untouched dump exited with {rc}: {err}")));
        }
        let z = std::fs::read(&mout).map_err(|e| ("cli-no-output".to_string(), format!("no output model: {e}")))?;
        let out = zstd::decode_all(&z[..]).map_err(|e| ("cli-output-not-zstd".to_string(), e.to_string()))?;
        if out != bytes {
            let got = ModelSpec::from_bytes(&out).map(|x| x.0.dict_model);
            return Err(("cli-not-lossless".into(), format!("dump + replace changed the model: dictionary in {:?} out {:?}", dict, got)));
        }
        // the dump with CR LF record terminators (what a spreadsheet or a Windows editor saves), for dictionaries whose
        // fields contain no line break themselves: the same model must come back
        if dict.iter().all(|d| !d.word.contains(['\r', '\n']) && !d.comment.contains(['\r', '\n'])) {
            let text = std::fs::read_to_string(&csv).map_err(|e| ("cli-dump-unreadable".to_string(), e.to_string()))?;
            let (csv_crlf, mout_crlf) = (format!("{dir}/dict-crlf.csv"), format!("{dir}/out-crlf.zst"));
            std::fs::write(&csv_crlf, text.replace("\r\n", "\n").replace('\n', "\r\n")).map_err(|e| ("cli-scratch".to_string(), e.to_string()))?;
            let (rc, err) = run_tool(&["--model-in", &min, "--replace-dict", &csv_crlf, "--model-out", &mout_crlf]).unwrap_or_else(|e| machinery_error(&e));
            if rc != 0 {
                return Err(("cli-crlf-replace-failed".into(), format!("--replace-dict with the dump saved with CR LF line ends exited with {rc}: {err}")));
            }
            let out = std::fs::read(&mout_crlf).ok().and_then(|z| zstd::decode_all(&z[..]).ok());
            if out.as_deref() != Some(&bytes[..]) {
                return Err(("cli-crlf-not-lossless".into(), "the dump saved with CR LF line ends gives a different model".into()));
            }
        }
        // both options in ONE invocation (dump happens first, then the replacement) and neither option
        // (plain re-encode): same dump, same model
        {
            let (csv2, mout2, mout3) = (format!("{dir}/dict2.csv"), format!("{dir}/out2.zst"), format!("{dir}/out3.zst"));
            let (rc, err) = run_tool(&["--model-in", &min, "--dump-dict", &csv2, "--replace-dict", &csv, "--model-out", &mout2]).unwrap_or_else(|e| machinery_error(&e));
            if rc != 0 {
                return Err(("cli-combined-failed".into(), format!("--dump-dict + --replace-dict in one invocation exited with {rc}: {err}")));
            }
            if std::fs::read(&csv2).ok() != std::fs::read(&csv).ok() {
                return Err(("cli-combined-dump-differs".into(), "the dump written next to a replacement differs from the dump written alone".into()));
            }
            let (rc, err) = run_tool(&["--model-in", &min, "--model-out", &mout3, "--zstd-workers", "2"]).unwrap_or_else(|e| machinery_error(&e));
            if rc != 0 {
                return Err(("cli-copy-failed".into(), format!("--model-in/--model-out alone exited with {rc}: {err}")));
            }
            // ... and with the SAME file for both options (dump it, then read it back at once)
            let (csv3, mout4) = (format!("{dir}/dict3.csv"), format!("{dir}/out4.zst"));
            let (rc, err) = run_tool(&["--model-in", &min, "--dump-dict", &csv3, "--replace-dict", &csv3, "--model-out", &mout4]).unwrap_or_else(|e| machinery_error(&e));
            if rc != 0 {
                return Err(("cli-combined-same-file-failed".into(), format!("--dump-dict F --replace-dict F in one invocation exited with {rc}: {err}")));
            }
            for (what, path) in [("combined invocation", &mout2), ("plain re-encode", &mout3), ("combined invocation on one file", &mout4)] {
                let out = std::fs::read(path).ok().and_then(|z| zstd::decode_all(&z[..]).ok());
                if out.as_deref() != Some(&bytes[..]) {
                    return Err(("cli-not-lossless".into(), format!("{what}: the written model differs from the input model")));
                }
            }
        }
        // a record whose weight count does not match must be rejected
        if !dict.is_empty() {
            let text = std::fs::read_to_string(&csv).map_err(|e| ("cli-dump-unreadable".to_string(), e.to_string()))?;
            // append one more weight to the weights column of the LAST record: re-write the dump through the harness
            let mut lines = String::from("word,weights,comment\n");
            for (i, d) in dict.iter().enumerate() {
                let mut w: Vec<String> = d.weights.iter().map(|x| x.to_string()).collect();
                if i == dict.len() - 1 {
                    w.push("7".into());
                }
                let q = |s: &str| format!("\"{}\"", s.replace('"', "\"\""));
                lines.push_str(&format!("{},{},{}\n", q(&d.word), q(&w.join(" ")), q(&d.comment)));
            }
            let _ = text;
            std::fs::write(&bad, lines).unwrap();
            let _ = std::fs::remove_file(&mbad);
            let (rc, _) = run_tool(&["--model-in", &min, "--replace-dict", &bad, "--model-out", &mbad]).unwrap_or_else(|e| machinery_error(&e));
            if rc == 0 || std::path::Path::new(&mbad).exists() {
                return Err(("cli-bad-record-accepted".into(), format!("a record with one weight too many was accepted (exit {rc}, output written: {})", std::path::Path::new(&mbad).exists())));
            }
            // ... also when no output model is requested, alone and next to a dump
            let (rc, _) = run_tool(&["--model-in", &min, "--replace-dict", &bad]).unwrap_or_else(|e| machinery_error(&e));
            if rc == 0 {
                return Err(("cli-bad-record-accepted".into(), "a record with one weight too many was accepted when --model-out was not given (exit 0)".into()));
            }
            // other malformed records appended to the good dump: an empty word without weights, an empty quoted word
            // without weights, a word without weights, a word with one weight too few
            let good: String = {
                let mut l = String::from("word,weights,comment\n");
                for d in dict.iter() {
                    let q = |s: &str| format!("\"{}\"", s.replace('"', "\"\""));
                    l.push_str(&format!("{},{},{}\n", q(&d.word), q(&d.weights.iter().map(|x| x.to_string()).collect::<Vec<_>>().join(" ")), q(&d.comment)));
                }
                l
            };
            for (what, row) in [("an empty word without weights", ",,\n"), ("an empty quoted word without weights", "\"\",\"\",\"\"\n"), ("a word without weights", "zz,,\n"), ("a word with one weight too few", "zz,1 2,\n")] {
                std::fs::write(&bad, format!("{good}{row}")).unwrap();
                let _ = std::fs::remove_file(&mbad);
                let (rc, _) = run_tool(&["--model-in", &min, "--replace-dict", &bad, "--model-out", &mbad]).unwrap_or_else(|e| machinery_error(&e));
                if rc == 0 || std::path::Path::new(&mbad).exists() {
                    return Err(("cli-bad-record-accepted".into(), format!("{what} was accepted (exit {rc}, output written: {})", std::path::Path::new(&mbad).exists())));
                }
            }
            let csv4 = format!("{dir}/dict4.csv");
            let (rc, _) = run_tool(&["--model-in", &min, "--dump-dict", &csv4, "--replace-dict", &bad]).unwrap_or_else(|e| machinery_error(&e));
            if rc == 0 {
                return Err(("cli-bad-record-accepted".into(), "a record with one weight too many was accepted next to --dump-dict without --model-out (exit 0)".into()));
            }
        }
        Ok(())
    })();
    let _ = std::fs::remove_dir_all(&dir);
    res.err()
}

/// CLI history: several dumps (of models with different dictionaries) go to the SAME csv path and
/// several outputs to the SAME model path, as a user iterating on a dictionary would do; after the
/// last dump, replacing with it must reproduce the last model byte for byte.
pub fn large_dict(n: usize) -> Vec<WR> {
    (0..n).map(|i| {
        let word: String = format!("{}{}", ['a', 'あ', 'x', '犬'][i % 4], i).chars().map(|c| if c == '7' { ',' } else { c }).collect();
        WR { weights: (0..word.chars().count() + 1).map(|k| ((i * 31 + k * 7) % 2001) as i32 - 1000).collect(), comment: if i % 5 == 0 { format!("c\"{i}") } else { String::new() }, word }
    }).collect()
}

pub fn check_cli_history(dicts: &[Vec<WR>], tag: &str) -> Option<(String, String)> {
    let dir = format!("{SCRATCH}/c19h-{tag}");
    let _ = std::fs::create_dir_all(&dir);
    let (min, csv, mout) = (format!("{dir}/in.zst"), format!("{dir}/dict.csv"), format!("{dir}/out.zst"));
    let res = (|| -> Result<(), (String, String)> {
        let mut last = vec![];
        for (step, dict) in dicts.iter().enumerate() {
            let mut base = models::build(&[Entry::Char("a".into())], 2, 2, 1, 0);
            base.dict_model = dict.clone();
            last = base.to_bytes();
            write_zst(&min, &last);
            let (rc, err) = run_tool(&["--model-in", &min, "--dump-dict", &csv]).unwrap_or_else(|e| machinery_error(&e));
            if rc != 0 {
                return Err(("cli-history-dump-failed".into(), format!("step {step}: --dump-dict exited with {rc}: {err}")));
            }
            let (rc, err) = run_tool(&["--model-in", &min, "--replace-dict", &csv, "--model-out", &mout]).unwrap_or_else(|e| machinery_error(&e));
            if rc != 0 {
                return Err(("cli-history-replace-failed".into(), format!("step {step}: --replace-dict with the untouched dump (dump path reused from earlier steps) exited with {rc}: {err}")));
            }
            let z = std::fs::read(&mout).map_err(|e| ("cli-history-no-output".to_string(), e.to_string()))?;
            let out = zstd::decode_all(&z[..]).map_err(|e| ("cli-history-output-not-zstd".to_string(), format!("step {step}: {e}")))?;
            if out != last {
                let got = ModelSpec::from_bytes(&out).map(|x| x.0.dict_model.iter().map(|d| d.word.clone()).collect::<Vec<_>>());
                return Err(("cli-history-not-lossless".into(), format!("step {step}: after dumps of dictionaries with {:?} words to the same path, dump + replace gives dictionary {got:?}, expected {:?}", dicts.iter().map(|d| d.len()).collect::<Vec<_>>(), dict.iter().map(|d| &d.word).collect::<Vec<_>>())));
            }
        }
        Ok(())
    })();
    let _ = std::fs::remove_dir_all(&dir);
    res.err()
}

fn history_pool() -> Vec<Vec<WR>> {
    let words = ["a", "あa", "ab,c", "火星猫", "x y", "\"q\"", "犬"];
    let mk = |ix: &[usize]| -> Vec<WR> { ix.iter().map(|&i| WR { word: words[i].into(), weights: (0..words[i].chars().count() + 1).map(|k| (i * 10 + k) as i32 - 7).collect(), comment: if i % 2 == 0 { "note".into() } else { String::new() } }).collect() };
    vec![mk(&[]), mk(&[0]), mk(&[1, 2, 3]), mk(&[0, 1, 2, 3, 4, 5, 6]), mk(&[6])]
}

pub fn replay(c: &Value) -> Option<(String, String)> {
    if c["kind"] == "cli-history" {
        let dicts: Vec<Vec<WR>> = serde_json::from_value(c["dicts"].clone()).ok()?;
        let label = c["label"].as_str()?;
        return check_cli_history(&dicts, "replay").map(|(k, w)| (format!("{k} order={label}"), w));
    }
    if c["kind"] == "cli-large" {
        let n = c["n"].as_u64()? as usize;
        let dict = large_dict(n);
        return check_cli(&dict, "replay-large").map(|(k, w)| (format!("{k} words=large"), w.chars().take(300).collect()));
    }
    match c["kind"].as_str()? {
        "replace" => {
            let base: ModelSpec = serde_json::from_value(c["base"].clone()).ok()?;
            let new: Vec<WR> = serde_json::from_value(c["new"].clone()).ok()?;
            let texts = gen::strings(&['a', 'あ', '𠀋'], 2, 4);
            check_replace(&base, &new, &texts).map(|(k, w)| (format!("{k} base={} new={:?}", c["desc"].as_str().unwrap_or(""), new.iter().map(|d| &d.word).collect::<Vec<_>>()), w))
        }
        "record" => {
            let word = c["word"].as_str()?;
            let n = c["n"].as_u64()? as usize;
            check_record_len(word, n).map(|(k, w)| (format!("{k} word={word:?} n={n}"), w))
        }
        _ => {
            let dict: Vec<WR> = serde_json::from_value(c["dict"].clone()).ok()?;
            let label = c["label"].as_str()?;
            check_cli(&dict, "replay").map(|(k, w)| (format!("{k} words={label}"), w))
        }
    }
}

pub fn run(tier: Tier) -> ! {
    let chk = Check::new("C19", tier, "exploration");
    quiet_panics();
    if !std::path::Path::new(&format!("{CLI_DIR}/manipulate_model")).exists() {
        machinery_error("manipulate_model binary not built (the check driver builds it)");
    }
    // API part
    let texts = gen::strings(&['a', 'あ', '𠀋'], 2, 4);
    let words: Vec<String> = gen::strings(&['a', 'あ'], 1, 3).iter().map(|w| gen::s(w)).collect();
    let mut bases = vec![];
    for (_, fam) in crate::c01::families(Tier::Quick) {
        for b in fam.into_iter().step_by(tier.pick(97, 23)) {
            bases.push(b);
        }
    }
    chk.set("api_base_models", json!(bases.len()));
    let mut news: Vec<Vec<WR>> = gen::subsets_upto(words.len(), 2).iter().map(|ix| ix.iter().map(|&i| dict_entry(&words[i], 40 + i as u64)).collect()).collect();
    // a dictionary is a LIST: every sequence of up to 3 records over 4 words, repeated words included
    // (adjacent and separated), each record with its own weights and comment
    let pick = [0usize, 1, 2, 5];
    for seq in (2..=3).flat_map(|l| gen::vectors(4, l)) {
        let seq: Vec<usize> = seq.iter().map(|&x| pick[x as usize]).collect();
        let mut distinct = seq.clone();
        distinct.sort();
        distinct.dedup();
        if distinct.len() < seq.len() {
            news.push(seq.iter().enumerate().map(|(k, &i)| dict_entry(&words[i], 400 + 17 * k as u64 + i as u64)).collect());
        }
    }
    chk.set("api_new_dictionaries", json!(news.len()));
    bases.par_iter().for_each(|b| {
        for new in &news {
            chk.eval(1);
            chk.nontrivial(1);
            if let Some((k, what)) = check_replace(&b.spec, new, &texts) {
                chk.violation(format!("{k} base={} new={:?}", b.desc, new.iter().map(|d| &d.word).collect::<Vec<_>>()), what, json!({"kind": "replace", "desc": b.desc, "base": b.spec, "new": new}));
            }
        }
    });
    for word in ["", "a", "ab", "あ", "あ𠀋", "aあ𠀋", "𠀋𠀋𠀋𠀋"] {
        for n in 0..=7 {
            chk.eval(1);
            chk.nontrivial(1);
            if let Some((k, what)) = check_record_len(word, n) {
                chk.violation(format!("{k} word={word:?} n={n}"), what, json!({"kind": "record", "word": word, "n": n}));
            }
        }
    }
    // CLI part
    let sigma = ['a', ',', '"', ' ', '\n', '\r', 'あ', '#', '\\', 'n'];
    let hostile: Vec<String> = gen::strings(&sigma, 1, tier.pick(2, 3)).iter().map(|w| gen::s(w)).collect();
    let extremes = [0, -1, 32767, -32768, i32::MAX, i32::MIN];
    let mk = |i: usize, w: &str| -> WR {
        let n = w.chars().count() + 1;
        WR { word: w.to_string(), weights: (0..n).map(|k| extremes[(i + k) % extremes.len()]).collect(), comment: hostile[(i * 7 + 3) % hostile.len()].clone() }
    };
    chk.set("cli_words", json!(hostile.len()));
    hostile.par_iter().enumerate().for_each(|(i, w)| {
        let dict = vec![mk(i, w)];
        chk.eval(1);
        chk.nontrivial(1);
        if let Some((k, what)) = check_cli(&dict, &format!("w{i}")) {
            chk.violation(format!("{k} words={w:?}"), what, json!({"kind": "cli", "label": format!("{w:?}"), "dict": dict}));
        }
    });
    // long hostile words (300 characters) and a long comment
    for (i, unit) in ["a,", "\"あ", " \n", "#\r"].iter().enumerate() {
        let w: String = unit.repeat(150);
        let mut d = mk(i, &w);
        d.comment = "c,\"\n".repeat(100);
        chk.eval(1);
        chk.nontrivial(1);
        if let Some((k, what)) = check_cli(&[d.clone()], &format!("long{i}")) {
            chk.violation(format!("{k} words=long{i}"), what, json!({"kind": "cli", "label": format!("long{i}"), "dict": [d]}));
        }
    }
    // all hostile words together in one dictionary, the empty dictionary, and lists with repeated words
    let rep = |ix: &[usize]| ix.iter().enumerate().map(|(k, &i)| mk(i + 3 * k, &hostile[i % hostile.len()])).collect::<Vec<_>>();
    for (tag, dict) in [("all", hostile.iter().enumerate().map(|(i, w)| mk(i, w)).collect::<Vec<_>>()), ("none", vec![]), ("repeat-adjacent", rep(&[0, 0, 1])), ("repeat-separated", rep(&[0, 1, 0])), ("repeat-thrice", rep(&[6, 6, 6, 2, 2]))] {
        chk.eval(1);
        chk.nontrivial(1);
        if let Some((k, what)) = check_cli(&dict, tag) {
            chk.violation(format!("{k} words={tag}"), what, json!({"kind": "cli", "label": tag, "dict": dict}));
        }
    }
    // a LARGE dictionary (12 000 / 60 000 distinct words: model well above 128 KiB, CSV above any buffer), so that
    // the dump, the CSV reader and the model writer all work across many internal blocks
    {
        let n = tier.pick(12_000usize, 60_000);
        let dict = large_dict(n);
        let mut m = models::build(&[Entry::Char("a".into())], 2, 2, 1, 0);
        m.dict_model = dict.clone();
        let sz = m.to_bytes().len();
        if sz < 200_000 {
            machinery_error(&format!("the large dictionary gives a model of only {sz} bytes"));
        }
        chk.set("large_dictionary_words", json!(n));
        chk.set("large_model_bytes", json!(sz));
        chk.eval(1);
        chk.nontrivial(1);
        if let Some((k, what)) = check_cli(&dict, "large") {
            let what: String = what.chars().take(300).collect();
            chk.violation(format!("{k} words=large"), what, json!({"kind": "cli-large", "n": n}));
        }
    }
    // histories: every ordered pair and triple of 5 dictionaries of different sizes through the same files
    let hp = history_pool();
    let mut orders: Vec<Vec<usize>> = vec![];
    for a in 0..hp.len() {
        for b in 0..hp.len() {
            if a != b {
                orders.push(vec![a, b]);
                for c in 0..hp.len() {
                    if c != b && tier == Tier::Thorough {
                        orders.push(vec![a, b, c]);
                    }
                }
            }
        }
    }
    chk.set("cli_histories", json!(orders.len()));
    orders.par_iter().for_each(|o| {
        let dicts: Vec<Vec<WR>> = o.iter().map(|&i| hp[i].clone()).collect();
        let label = o.iter().map(|i| i.to_string()).collect::<Vec<_>>().join(">");
        chk.eval(1);
        chk.nontrivial(1);
        if let Some((k, what)) = check_cli_history(&dicts, &label.replace('>', "-")) {
            chk.violation(format!("{k} order={label}"), what, json!({"kind": "cli-history", "label": label, "dicts": dicts}));
        }
    });
    chk.sample(json!({"kind": "cli-history", "meaning": "dump a 7-word dictionary, then a 1-word dictionary to the same csv path, replace with it: the model must be reproduced byte for byte"}));
    chk.sample(json!({"kind": "cli", "word": "a,\"", "weights": [0, -1, 32767, -32768], "comment": "\n#"}));
    chk.sample(json!({"kind": "replace", "base": "C01 family model", "new_dictionary": ["a", "あa"]}));
    chk.assume("the csv and zstd crates are trusted; the dump is replayed byte-for-byte as written by the tool");
    chk.finish(
        "API: sub-sampled C01 models x every replacement dictionary of <=2 words over {a,あ} (len<=3) x all texts (score differences vs reference, model unchanged outside the dictionary), every weight count 0..7 for 6 words; CLI: the real manipulate_model on every word up to the bound over {a , \" space LF CR あ #} with extreme weights and hostile comments, alone and all together: dump, replace with the untouched dump, byte comparison, rejection of a record with a wrong weight count, and every ordered pair (thorough: + triple) of 5 dictionaries of different sizes dumped to the same csv path / written to the same model path before the final dump + replace; every case is non-trivial",
        true,
        &replay,
    )
}
