//! C08 — reusing a sentence or sharing a predictor never changes results.
//! C08a (E2): BFS over histories with the fresh-vs-reused oracle. C08b (E4): call-level
//! interleavings of real threads sharing predictors (added below).

use crate::bfs::{self, Mode, World};
use crate::report::*;
use serde_json::{json, Value};

pub fn replay(case: &Value) -> Option<(String, String)> {
    if case["mode"] == "C08" {
        return bfs::replay_case(Mode::C08, case);
    }
    if case["mode"] == "schedule" {
        let w = World::new(Tier::Quick);
        let programs: Vec<Vec<bfs::Op>> = serde_json::from_value(case["programs"].clone()).ok()?;
        let schedule: Vec<usize> = serde_json::from_value(case["schedule"].clone()).ok()?;
        return crate::sched::check_schedule(&w, &programs, &schedule);
    }
    None
}

pub fn run(tier: Tier) -> ! {
    let chk = Check::new("C08", tier, "model_checking");
    quiet_panics();
    let w = World::new(tier);
    // C08b: call-level interleavings of real threads sharing predictors
    fn assert_send_sync<T: Send + Sync>() {}
    assert_send_sync::<vaporetto::Predictor>();
    let sr = crate::sched::explore(&w, tier, &chk);
    chk.set("schedules_explored", json!(sr.schedules));
    chk.set("schedule_assignments", json!(sr.assignments));
    if chk.n_violations() > 0 {
        // shared mutable state between sentences makes the parallel BFS below non-replayable;
        // the schedule search is deterministic and has already decided the property
        chk.set("bfs_skipped", json!("schedule search found violations"));
        chk.nontrivial(sr.schedules);
        chk.finish("C08b only (violations found before the history search was started)", false, &replay);
    }
    let r = bfs::search(&w, Mode::C08, &chk, tier.pick(400_000, 3_000_000));
    chk.set("states", json!(r.states));
    chk.set("transitions", json!(r.transitions));
    chk.set("traces_validated_against_impl", json!(r.transitions));
    chk.set("max_depth", json!(r.max_depth));
    chk.set("fixpoint_reached", json!(!r.capped));
    chk.set("states_per_depth", json!(r.per_depth));
    chk.set("distinct_observed_outcomes", json!(r.distinct_obs));
    chk.set("suffix_cap", json!(w.suffix_cap));
    chk.set("operation_alphabet", json!(w.ops.iter().map(|o| w.op_name(o)).collect::<Vec<_>>()));
    chk.nontrivial(r.states);
    chk.assume("C08b scheduling points are API calls: the code under test has no lock/atomic/channel for a finer controlled scheduler (loom/shuttle would see only spawn/join); mid-call interleavings can differ only through unsynchronised shared writes, which need unsafe/interior mutability the predictor does not have");
    chk.assume("state key = 128-bit hash of the full field snapshot (verif-hooks) + harness bookkeeping");
    chk.assume("fill_tags after predict by a predict_tags=false predictor and Token::tag_candidates without stored scores are documented panics: disabled / not compared");
    chk.finish(
        "breadth-first search over all histories of one real Sentence under the operation alphabet to a fixpoint; in every state whose last successful update lies at most suffix_cap operations back, the full public observation is compared with a freshly constructed sentence given the same input and the same operations; every transition runs the real code",
        !r.capped,
        &replay,
    )
}
