//! C08 — reusing a sentence or sharing a predictor never changes results.
//! C08a (E2): BFS over histories with the fresh-vs-reused oracle. C08b (E4): call-level
//! interleavings of real threads sharing predictors (added below).

use crate::bfs::{self, Mode, World};
use crate::report::*;
use serde_json::{json, Value};

/// C08d: histories of ONE predictor object (not only of sentences): every sequence of up to `depth`
/// steps over {store_tag_scores(on), store_tag_scores(off), predict+fill_tags text i on a fresh
/// sentence}. (A sentence linked to a predictor borrows it, so the flag can only change between
/// sentences; `Predictor` is not `Clone`.) After every predicting step the sentence's full observation
/// must equal that of a predictor built from scratch with the store flag in force.
#[derive(Clone, Copy, Debug, serde::Serialize, serde::Deserialize, PartialEq, Eq)]
pub enum PStep {
    Store(bool),
    Fresh(usize),
}

const PTEXTS: [&str; 5] = ["ab a", "a", "あa ba", "aab", "a ba"];

pub fn check_predictor_history(h: &[PStep]) -> Option<(String, String)> {
    use vaporetto::{Predictor, Sentence};
    let spec = bfs::model_tags2();
    let mk = |store: bool| {
        let mut p = Predictor::new(spec.to_model().unwrap_or_else(|e| machinery_error(&e)), true).unwrap_or_else(|e| machinery_error(&e.to_string()));
        p.store_tag_scores(store);
        p
    };
    let r = guard(|| {
        let mut store = false;
        let mut p = mk(false);
        for (k, st) in h.iter().enumerate() {
            match *st {
                PStep::Store(b) => {
                    p.store_tag_scores(b);
                    store = b;
                }
                PStep::Fresh(i) => {
                    let want = {
                        let q = mk(store);
                        let mut s = Sentence::from_raw(PTEXTS[i]).unwrap();
                        q.predict(&mut s);
                        s.fill_tags();
                        crate::obs::observe(&s, true)
                    };
                    let mut s = Sentence::from_raw(PTEXTS[i]).unwrap();
                    p.predict(&mut s);
                    s.fill_tags();
                    let got = crate::obs::observe(&s, true);
                    if got != want {
                        return Some((k, format!("step {k} ({st:?}, store flag {store}): observed {got:?}, a predictor built from scratch with that flag gives {want:?}")));
                    }
                }
            }
        }
        None
    });
    match r {
        Err(p) => Some(("predictor-history-panic".into(), p)),
        Ok(Some((k, what))) => Some((format!("predictor-history step={k}"), what)),
        Ok(None) => None,
    }
}

pub fn predictor_histories(depth: usize) -> Vec<Vec<PStep>> {
    let mut alphabet = vec![PStep::Store(true), PStep::Store(false)];
    for i in 0..PTEXTS.len() {
        alphabet.push(PStep::Fresh(i));
    }
    let mut out: Vec<Vec<PStep>> = vec![vec![]];
    let mut all = vec![];
    for _ in 0..depth {
        let mut next = vec![];
        for h in &out {
            for a in &alphabet {
                let mut x = h.clone();
                x.push(*a);
                next.push(x);
            }
        }
        all.extend(next.iter().filter(|h| matches!(h.last(), Some(PStep::Fresh(_)))).cloned());
        out = next;
    }
    all
}

/// C08e: LARGE histories of one sentence object: after one or two very long lines (70 000 characters; 40 000 then
/// 50 000 so that amortised growth crosses 64 Ki elements; a 30 000-token tagged line through update_tokenized)
/// were predicted (and tagged) with it, every short text must give exactly what a fresh sentence gives. What survives
/// `update_*` between lines is buffer capacity, and only a long line makes it large. Models with non-zero bias.
pub fn check_large_history(model: usize, history: usize) -> Option<(String, String)> {
    use crate::models::Entry;
    use vaporetto::{Predictor, Sentence};
    let es = [Entry::Char("a".into()), Entry::Dict("ab".into()), Entry::Type(vec![2, 3]), Entry::Char("あa".into())];
    let (bias, tags) = [(1200, false), (-700, true), (5, true), (-32768, false)][model % 4];
    let b = crate::c01::mk(&es, 2, 2, bias, (model % 2) as u8, tags);
    let pred = Predictor::new(b.spec.to_model().unwrap_or_else(|e| machinery_error(&e)), tags).unwrap_or_else(|e| machinery_error(&e.to_string()));
    let long = |n: usize, unit: &str| -> String { unit.chars().cycle().take(n).collect() };
    let r = guard(|| {
        let mut out = vec![];
        // the history is rebuilt before EVERY short text: the first call after the long line is the one that
        // meets the large buffers (a later one may already see them shrunk or replaced)
        for t in ["ab", "a", "あa", "abあab", "ba1あa", "aaaaaaaaaaaaaaaaaaaaaaaaaaaaaaaaaaaaaaaaaaaaaaaaaaaaaaaaaaaaaaaaaaaaaab"] {
        let mut s = Sentence::default();
        match history {
            0 => { s.update_raw(long(70_000, "a")).unwrap(); pred.predict(&mut s); }
            1 => { for n in [40_000, 50_000] { s.update_raw(long(n, "abあ")).unwrap(); pred.predict(&mut s); if tags { s.fill_tags(); } } }
            2 => { s.update_tokenized(&"a/X/p あ/Y ".repeat(15_000).trim_end().to_string()).unwrap(); pred.predict(&mut s); if tags { s.fill_tags(); } }
            _ => { s.update_raw(long(140_000, "あab1")).unwrap(); pred.predict(&mut s); if tags { s.fill_tags(); } s.update_raw(long(66_000, "b")).unwrap(); pred.predict(&mut s); }
        }
        {
            s.update_raw(t.to_string()).unwrap();
            pred.predict(&mut s);
            if tags { s.fill_tags(); }
            let reused = crate::obs::observe(&s, false);
            let mut f = Sentence::from_raw(t.to_string()).unwrap();
            pred.predict(&mut f);
            if tags { f.fill_tags(); }
            let fresh = crate::obs::observe(&f, false);
            if reused != fresh {
                out.push(format!("text {t:?}: reused sentence gives scores {:?} boundaries {:?} tags {:?}, a fresh one {:?} {:?} {:?}", reused.scores, reused.boundaries, reused.tags, fresh.scores, fresh.boundaries, fresh.tags));
            }
        }
        }
        out
    });
    match r {
        Err(p) => Some(("large-history-panic".into(), p)),
        Ok(v) if !v.is_empty() => Some(("large-history-differs".into(), v[0].clone())),
        Ok(_) => None,
    }
}

pub fn replay(case: &Value) -> Option<(String, String)> {
    if case["mode"] == "large-history" {
        let (m, h) = (case["model"].as_u64()? as usize, case["history"].as_u64()? as usize);
        return check_large_history(m, h).map(|(k, w)| (format!("{k} model={m} history={h}"), w));
    }
    if case["mode"] == "predictor-history" {
        let h: Vec<PStep> = serde_json::from_value(case["history"].clone()).ok()?;
        return check_predictor_history(&h).map(|(k, w)| (format!("{k} history={h:?}"), w));
    }
    if case["mode"] == "C08" {
        return bfs::replay_case(Mode::C08, case);
    }
    if case["mode"] == "schedule" {
        let w = World::new(Tier::Quick);
        let programs: Vec<Vec<bfs::Op>> = serde_json::from_value(case["programs"].clone()).ok()?;
        let schedule: Vec<usize> = serde_json::from_value(case["schedule"].clone()).ok()?;
        return crate::sched::check_schedule(&w, &programs, &schedule);
    }
    None
}

/// `vp-check C08free <tier>`: the free-running pass alone (used under ThreadSanitizer).
pub fn run_free(tier: Tier) -> ! {
    let chk = Check::new("C08free", tier, "other");
    quiet_panics();
    let w = World::new(tier);
    let n = crate::sched::free_run(&w, &chk, tier.pick(300, 3000));
    println!("C08free: compared={n} violations={}", chk.n_violations());
    std::process::exit(if chk.n_violations() > 0 { 1 } else { 0 });
}

pub fn run(tier: Tier) -> ! {
    let chk = Check::new("C08", tier, "model_checking");
    quiet_panics();
    let w = World::new(tier);
    // C08b: call-level interleavings of real threads sharing predictors
    fn assert_send_sync<T: Send + Sync>() {}
    assert_send_sync::<vaporetto::Predictor>();
    let sr = crate::sched::explore(&w, tier, &chk);
    chk.set("schedules_explored", json!(sr.schedules));
    chk.set("schedule_assignments", json!(sr.assignments));
    // C08d: histories of one predictor object (flag toggles between fresh sentences)
    {
        let hs = predictor_histories(tier.pick(4, 5));
        chk.set("predictor_histories", json!(hs.len()));
        // sequential on purpose: with process-wide shared state in the library (what this property is
        // about) a parallel sweep would observe non-replayable mixtures of histories
        hs.iter().for_each(|h| {
            chk.eval(1);
            chk.nontrivial(1);
            if let Some((k, what)) = check_predictor_history(h) {
                chk.violation(format!("{k} history={h:?}"), what, json!({"mode": "predictor-history", "history": h}));
            }
        });
    }
    // C08e: large histories of one sentence object (buffer capacity left behind by very long lines)
    {
        let mut n = 0u64;
        for m in 0..4usize {
            for h in 0..4usize {
                n += 1;
                chk.eval(6);
                chk.nontrivial(6);
                if let Some((k, what)) = check_large_history(m, h) {
                    chk.violation(format!("{k} model={m} history={h}"), what, json!({"mode": "large-history", "model": m, "history": h}));
                }
            }
        }
        chk.set("large_histories", json!(n));
    }
    // C08c: loom exploration INSIDE calls, on a copy of the library whose atomics / Mutex / RwLock /
    // Condvar paths were rewritten to loom's (tools/loomprep.sh). Exhaustive up to loom's
    // pre-emption bound for the primitives it intercepts; trivial when the library has none.
    if std::path::Path::new("/verif/target/loom/release/vp-loom.ok").exists() {
        match std::process::Command::new("/verif/target/loom/release/vp-loom").output() {
            Ok(o) => {
                let out = String::from_utf8_lossy(&o.stdout).to_string();
                let line = out.lines().rev().find(|l| l.starts_with("LOOM ")).unwrap_or("").to_string();
                chk.set("loom_pass", json!({"available": true, "summary": line}));
                if line.contains("result=violation") || !o.status.success() {
                    let path = "/verif/replays/C08-loom.txt";
                    let _ = std::fs::write(path, format!("command: /verif/tools/loomprep.sh && cargo build --release --offline --manifest-path /verif/harness/vp-loom/Cargo.toml --target-dir /verif/target/loom && /verif/target/loom/release/vp-loom\n{out}\n{}", String::from_utf8_lossy(&o.stderr).lines().rev().take(40).collect::<Vec<_>>().into_iter().rev().collect::<Vec<_>>().join("\n")));
                    say(&format!("VIOLATION property=C08 replay={path}"));
                    say(&format!("  what: loom found an interleaving inside predict/fill_tags in which a thread sharing a never-used predictor observes a different result than alone: {line}"));
                    chk.eval(1);
                    chk.nontrivial(2);
                    chk.write_evidence_only("loom pass found a violation before the other searches were started", 1);
                    std::process::exit(1);
                }
            }
            Err(e) => chk.set("loom_pass", json!({"available": false, "error": e.to_string()})),
        }
    } else {
        chk.set("loom_pass", json!({"available": false, "reason": "the loom-transformed copy of the library did not build (see /verif/target/build-loom.log); not a verdict"}));
    }
    // Complementary, sampling-based passes for what call-level interleaving cannot reach (the
    // inside of a call). A nightly probe tells whether Predictor holds interior mutability as a
    // direct field (atomics, cells, locks); if so the sampling effort is raised 40x.
    let freeze = probe_freeze();
    chk.set("predictor_has_no_direct_interior_mutability", json!(freeze));
    // a second probe: writable, process-wide statics defined by the vaporetto crate itself (static mut,
    // statics with interior mutability) in the object code just built; thread-locals are not shared
    let statics = probe_shared_statics();
    chk.set("shared_writable_statics_in_vaporetto", json!(statics));
    let effort = if freeze == Some(false) || statics.as_ref().map_or(false, |v| !v.is_empty()) { 40 } else { 1 };
    let cs = crate::sched::cold_start(&chk, tier.pick(200, 2000) * effort, 8);
    chk.set("cold_start_observations_compared", json!(cs));
    let fr = crate::sched::free_run(&w, &chk, tier.pick(100, 1000) * effort);
    chk.set("free_running_observations_compared", json!(fr));
    chk.assume("cold-start and free-running passes are randomised stress (sampling): complementary evidence for mid-call interleavings only, never the deciding step; a mismatch they observe is real");
    if chk.n_violations() > 0 {
        // shared mutable state between sentences makes the parallel BFS below non-replayable;
        // the schedule search is deterministic and has already decided the property
        chk.set("bfs_skipped", json!("schedule search found violations"));
        chk.nontrivial(sr.schedules);
        chk.finish("C08b only (violations found before the history search was started)", false, &replay);
    }
    // complementary evidence (not the deciding step): the same thread bodies free-running in a
    // ThreadSanitizer build, when the driver could build one
    let tsan = "/verif/target/tsan/x86_64-unknown-linux-gnu/release/vp-check";
    if tier == Tier::Thorough && std::path::Path::new(tsan).exists() {
        let out = std::process::Command::new(tsan).args(["C08free", "thorough"]).env("TSAN_OPTIONS", "halt_on_error=1 exitcode=66").output();
        match out {
            Ok(o) => {
                let code = o.status.code();
                chk.set("tsan_free_running_pass", json!({"ran": true, "exit": code, "stdout": String::from_utf8_lossy(&o.stdout).lines().last().unwrap_or("").to_string()}));
                if code != Some(0) {
                    let path = "/verif/replays/C08-tsan.txt";
                    let err = String::from_utf8_lossy(&o.stderr).to_string();
                    let _ = std::fs::write(path, format!("command: TSAN_OPTIONS='halt_on_error=1 exitcode=66' {tsan} C08free thorough\nstatus: {:?}\n{}\n{}", o.status, String::from_utf8_lossy(&o.stdout), err.lines().take(60).collect::<Vec<_>>().join("\n")));
                    say(&format!("VIOLATION property=C08 replay={path}"));
                    say(&format!("  what: free-running threads sharing predictors under ThreadSanitizer: exit {code:?}: {}", err.lines().find(|l| l.contains("ThreadSanitizer")).unwrap_or("observations differ")));
                    chk.write_evidence_only("ThreadSanitizer free-running pass failed before the history search", 1);
                    std::process::exit(1);
                }
            }
            Err(e) => chk.set("tsan_free_running_pass", json!({"ran": false, "error": e.to_string()})),
        }
    } else {
        chk.set("tsan_free_running_pass", json!({"ran": false, "reason": "thorough tier only / no ThreadSanitizer build present"}));
    }
    let r = bfs::search(&w, Mode::C08, &chk, tier.pick(400_000, 3_000_000));
    chk.set("states", json!(r.states));
    chk.set("transitions", json!(r.transitions));
    chk.set("traces_validated_against_impl", json!(r.transitions));
    chk.set("max_depth", json!(r.max_depth));
    chk.set("fixpoint_reached", json!(!r.capped));
    chk.set("states_per_depth", json!(r.per_depth));
    chk.set("distinct_observed_outcomes", json!(r.distinct_obs));
    chk.set("suffix_cap", json!(w.suffix_cap));
    chk.set("operation_alphabet", json!(w.ops.iter().map(|o| w.op_name(o)).collect::<Vec<_>>()));
    chk.nontrivial(r.states);
    chk.assume("C08b scheduling points are API calls: the code under test has no lock/atomic/channel for a finer controlled scheduler (loom/shuttle would see only spawn/join); mid-call interleavings can differ only through unsynchronised shared writes, which need unsafe/interior mutability the predictor does not have");
    chk.assume("state key = 128-bit hash of the full field snapshot (verif-hooks) + harness bookkeeping");
    chk.assume("fill_tags after predict by a predict_tags=false predictor and Token::tag_candidates without stored scores are documented panics: disabled / not compared");
    chk.finish(
        "breadth-first search over all histories of one real Sentence under the operation alphabet to a fixpoint; in every state whose last successful update lies at most suffix_cap operations back, the full public observation is compared with a freshly constructed sentence given the same input and the same operations; every transition runs the real code",
        !r.capped,
        &replay,
    )
}

/// Runs the nightly `Freeze` probe (harness/vp-freeze). None when it cannot be built here.
fn probe_freeze() -> Option<bool> {
    let out = std::process::Command::new("cargo")
        .args(["+nightly", "run", "--release", "--offline", "-q", "--manifest-path", "/verif/harness/vp-freeze/Cargo.toml", "--target-dir", "/verif/target/freeze"])
        .env("CARGO_NET_OFFLINE", "true")
        .output()
        .ok()?;
    let s = String::from_utf8_lossy(&out.stdout).to_string();
    if !out.status.success() || !s.contains("self_test_cell=false") || !s.contains("self_test_u8=true") {
        return None;
    }
    Some(s.contains("predictor_freeze=true"))
}


/// Names of writable non-thread-local statics (.data.* / .bss.* objects) that belong to the
/// vaporetto crate in the most recently built rlib. None when objdump is not available.
fn probe_shared_statics() -> Option<Vec<String>> {
    let dir = std::fs::read_dir("/verif/target/release/deps").ok()?;
    let mut libs: Vec<(std::time::SystemTime, std::path::PathBuf)> = dir
        .filter_map(|e| e.ok())
        .filter(|e| {
            let n = e.file_name().to_string_lossy().to_string();
            n.starts_with("libvaporetto-") && n.ends_with(".rlib")
        })
        .filter_map(|e| Some((e.metadata().ok()?.modified().ok()?, e.path())))
        .collect();
    libs.sort();
    let newest = libs.pop()?.1;
    let out = std::process::Command::new("objdump").args(["-t", "-C"]).arg(&newest).output().ok()?;
    if !out.status.success() {
        return None;
    }
    let mut names = vec![];
    for l in String::from_utf8_lossy(&out.stdout).lines() {
        let Some((_, rest)) = l.split_once(" O ") else { continue };
        let sect = rest.split_whitespace().next().unwrap_or("");
        let writable = (sect.starts_with(".data") && !sect.starts_with(".data.rel.ro")) || sect.starts_with(".bss");
        if writable && rest.contains("vaporetto::") {
            names.push(rest.split_whitespace().skip(2).collect::<Vec<_>>().join(" "));
        }
    }
    names.sort();
    names.dedup();
    Some(names)
}
