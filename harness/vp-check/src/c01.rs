//! C01 — boundary scores and decisions equal the pointwise linear model.
//! Engine E1: exhaustive small-scope enumeration of (model, text) against `ref_score`.

use crate::gen;
use crate::mirror::ModelSpec;
use crate::models::{self, Entry};
use crate::obs::label;
use crate::refmodel::*;
use crate::report::*;
use rayon::prelude::*;
use serde_json::{json, Value};
use vaporetto::{Predictor, Sentence};

pub struct Built {
    pub spec: ModelSpec,
    pub desc: String,
}

fn desc(entries: &[Entry], wc: u8, wt: u8, bias: i32, scheme: u8, tags: bool) -> String {
    format!(
        "wc={wc} wt={wt} bias={bias} scheme={scheme} tags={} entries=[{}]",
        tags as u8,
        entries.iter().map(|e| e.short()).collect::<Vec<_>>().join(",")
    )
}

pub fn mk(entries: &[Entry], wc: u8, wt: u8, bias: i32, scheme: u8, tags: bool) -> Built {
    let mut spec = models::build(entries, wc, wt, bias, scheme);
    if tags {
        models::attach_tags(&mut spec);
    }
    Built { spec, desc: desc(entries, wc, wt, bias, scheme, tags) }
}

/// init: 0 = fresh (all unknown), 1 = all word boundaries, 2 = pattern N,U,W,N,U,W..., 3 = already predicted once, 4 = predicted and tagged by an unrelated predictor before, 5 = predicted by the same predictor and relabelled through boundaries_mut()
fn run_one(pred: &Predictor, text: &str, init: u8) -> Result<(Vec<i32>, Vec<u8>, usize), String> {
    guard(|| {
        let mut s = Sentence::from_raw(text).expect("from_raw on a NUL-free non-empty text");
        match init {
            1 => s.boundaries_mut().iter_mut().for_each(|b| *b = label(1)),
            2 => s.boundaries_mut().iter_mut().enumerate().for_each(|(i, b)| *b = label((i % 3) as u8)),
            // the sentence was already predicted once (scores, labels and scratch state present)
            3 => pred.predict(&mut s),
            // predicted once by the SAME predictor, then every boundary overwritten through boundaries_mut()
            // (what a filter or a user does): the second prediction must overwrite them again
            5 => {
                pred.predict(&mut s);
                s.boundaries_mut().iter_mut().enumerate().for_each(|(i, b)| *b = label(((i + 2) % 3) as u8));
            }
            // the sentence was predicted and tagged by an unrelated tag-predicting predictor before
            4 => {
                crate::c06::other_predictor(text.len()).predict(&mut s);
                s.fill_tags();
            }
            _ => {}
        }
        pred.predict(&mut s);
        (
            s.boundary_scores().to_vec(),
            s.boundaries().iter().map(|&b| b as u8).collect(),
            s.boundaries().len(),
        )
    })
}

/// Checks one (model, predict_tags, text, init) case; returns (signature kind, what) on violation.
pub fn check_case(spec: &ModelSpec, pred: &Predictor, text: &[char], init: u8) -> (bool, Option<(String, String)>) {
    let t: String = text.iter().collect();
    let expect = ref_score(spec, text);
    let nontrivial = expect.iter().any(|&x| x != spec.bias as i64);
    let r = match run_one(pred, &t, init) {
        Err(p) => return (nontrivial, Some(("panic".into(), format!("predict panicked: {p}")))),
        Ok(r) => r,
    };
    let (scores, labels, nb) = r;
    if nb != text.len() - 1 || scores.len() != nb || labels.len() != nb {
        return (nontrivial, Some(("shape".into(), format!("lengths: scores={} labels={} expected {}", scores.len(), labels.len(), text.len() - 1))));
    }
    let got: Vec<i64> = scores.iter().map(|&x| x as i64).collect();
    if got != expect {
        return (nontrivial, Some(("scores".into(), format!("scores {got:?} != reference {expect:?}"))));
    }
    let want = ref_boundaries(&expect);
    if labels != want {
        return (nontrivial, Some(("labels".into(), format!("labels {labels:?} != reference {want:?} (scores {expect:?})"))));
    }
    (nontrivial, None)
}

fn build_pred(spec: &ModelSpec, predict_tags: bool) -> Result<Predictor, (String, String)> {
    let model = match spec.to_model() {
        Ok(m) => m,
        Err(e) => machinery_error(&e),
    };
    match guard(|| Predictor::new(model, predict_tags)) {
        Err(p) => Err(("new-panic".into(), format!("Predictor::new panicked on a well-formed model: {p}"))),
        Ok(Err(e)) => Err(("new-err".into(), format!("Predictor::new rejected a well-formed model: {e}"))),
        Ok(Ok(p)) => Ok(p),
    }
}

fn case_json(b: &Built, predict_tags: bool, text: &str, init: u8) -> Value {
    json!({"desc": b.desc, "spec": b.spec, "predict_tags": predict_tags, "text": text, "init": init})
}

pub fn check_model(chk: &Check, b: &Built, texts: &[Vec<char>], both_flags: bool) {
    let flags: &[bool] = if both_flags { &[false, true] } else { &[false] };
    for &pt in flags {
        let pred = match build_pred(&b.spec, pt) {
            Ok(p) => p,
            Err((k, what)) => {
                chk.eval(1);
                chk.violation(format!("{k} {} pt={}", b.desc, pt as u8), what, case_json(b, pt, "a", 0));
                continue;
            }
        };
        for text in texts {
            let inits: &[u8] = if text.len() >= 2 && text.len() <= 4 { &[0, 1, 2, 3, 4, 5] } else { &[0] };
            for &init in inits {
                let (nt, v) = check_case(&b.spec, &pred, text, init);
                chk.eval(1);
                if nt {
                    chk.nontrivial(1);
                }
                if let Some((k, what)) = v {
                    let t: String = text.iter().collect();
                    chk.violation(format!("{k} {} pt={} init={init} text={t}", b.desc, pt as u8), what, case_json(b, pt, &t, init));
                }
            }
        }
        if chk.want_sample() {
            chk.sample(json!({"model": b.desc, "predict_tags": pt, "texts": texts.len(), "first_text": texts.first().map(|t| gen::s(t))}));
        }
    }
}

pub fn replay(case: &Value) -> Option<(String, String)> {
    let spec: ModelSpec = serde_json::from_value(case["spec"].clone()).ok()?;
    let pt = case["predict_tags"].as_bool().unwrap_or(false);
    let text = case["text"].as_str()?.to_string();
    let init = case["init"].as_u64().unwrap_or(0) as u8;
    let d = case["desc"].as_str().unwrap_or("");
    let pred = match build_pred(&spec, pt) {
        Ok(p) => p,
        Err((k, what)) => return Some((format!("{k} {d} pt={}", pt as u8), what)),
    };
    let tc: Vec<char> = text.chars().collect();
    let (_, v) = check_case(&spec, &pred, &tc, init);
    v.map(|(k, what)| (format!("{k} {d} pt={} init={init} text={text}", pt as u8), what))
}

/// The model families. Returns (family name, models).
pub fn families(tier: Tier) -> Vec<(&'static str, Vec<Built>)> {
    let mut out = vec![];
    // F1: all models with <= 2 (quick) / <= 3 (thorough) entries from the pool
    let windows: Vec<(u8, u8)> = tier.pick(
        vec![(1, 1), (2, 2), (2, 3), (3, 2), (4, 4)],
        vec![(1, 1), (2, 2), (2, 3), (3, 2), (4, 4), (3, 3), (1, 4), (4, 1), (5, 5)],
    );
    let mut f1 = vec![];
    for &(wc, wt) in &windows {
        let maxlen = tier.pick(3, 4).min(2 * wc.max(wt) as usize);
        let pool: Vec<Entry> = models::pool(maxlen).into_iter().filter(|e| models::admissible(e, wc, wt)).collect();
        let k = if tier == Tier::Thorough && (wc, wt) == (2, 2) { 3 } else { 2 };
        // for the thorough triple family restrict the pool to length <= 3 to keep it finite in minutes
        let pool: Vec<Entry> = if k == 3 { pool.into_iter().filter(|e| e.len() <= 3).collect() } else { pool };
        for idx in gen::subsets_upto(pool.len(), k) {
            let entries: Vec<Entry> = idx.iter().map(|&i| pool[i].clone()).collect();
            let biases: &[i32] = if entries.len() <= 1 { &[-1, 0, 1] } else { &[0] };
            for &bias in biases {
                let scheme = (idx.iter().sum::<usize>() % 2) as u8;
                f1.push(mk(&entries, wc, wt, bias, scheme, false));
            }
        }
    }
    out.push(("F1-subsets", f1));

    // F1b: threshold / sign handling: small and extreme weights on pairs
    let mut f1b = vec![];
    {
        let pool: Vec<Entry> = models::pool(2);
        for idx in gen::subsets_upto(pool.len(), 2) {
            let entries: Vec<Entry> = idx.iter().map(|&i| pool[i].clone()).collect();
            for scheme in [2u8, 3] {
                for bias in [-1, 0, 1] {
                    f1b.push(mk(&entries, 2, 2, bias, scheme, false));
                }
            }
        }
    }
    out.push(("F1b-threshold", f1b));

    // F2: suffix chains, kinds alternating, plus long patterns sharing an already-merged suffix
    let mut f2 = vec![];
    let chains: Vec<Vec<&str>> = vec![
        vec!["a", "あa", "aあa", "ああa"],
        vec!["あ", "aあ", "aaあ", "あaあ", "aあaあ"],
        vec!["a", "aa", "aaa", "aaaa"],
        vec!["あa", "aあa", "aaあa", "あaあa"],
    ];
    for chain in &chains {
        // each member: char n-gram, dictionary word, or both  (3^len assignments)
        for assign in gen::vectors(3, chain.len()) {
            let mut entries = vec![];
            for (s, a) in chain.iter().zip(&assign) {
                if *a == 0 || *a == 2 {
                    entries.push(Entry::Char(s.to_string()));
                }
                if *a == 1 || *a == 2 {
                    entries.push(Entry::Dict(s.to_string()));
                }
            }
            for (wc, wt) in [(2u8, 2u8), (3, 1)] {
                if entries.iter().all(|e| models::admissible(e, wc, wt)) {
                    f2.push(mk(&entries, wc, wt, 0, 0, false));
                }
            }
        }
    }
    let tchains: Vec<Vec<Vec<u8>>> = vec![
        vec![vec![2], vec![3, 2], vec![2, 3, 2], vec![3, 3, 2]],
        vec![vec![3], vec![3, 3], vec![3, 3, 3], vec![2, 3, 3, 3]],
    ];
    for chain in &tchains {
        for mask in 1u32..(1 << chain.len()) {
            let entries: Vec<Entry> = chain.iter().enumerate().filter(|(i, _)| mask >> i & 1 == 1).map(|(_, t)| Entry::Type(t.clone())).collect();
            for wt in [2u8, 3, 4] {
                f2.push(mk(&entries, 2, wt, 0, 1, false));
            }
        }
    }
    out.push(("F2-suffix-chains", f2));

    // F4: same boundary parts with tag models attached (tag-aware scorers; type cache off)
    let mut f4 = vec![];
    for &(wc, wt) in &[(1u8, 1u8), (2, 2), (2, 3), (3, 2)] {
        let pool: Vec<Entry> = models::pool(tier.pick(2, 3)).into_iter().filter(|e| models::admissible(e, wc, wt)).collect();
        for idx in gen::subsets_upto(pool.len(), 2) {
            if idx.is_empty() {
                continue;
            }
            let entries: Vec<Entry> = idx.iter().map(|&i| pool[i].clone()).collect();
            f4.push(mk(&entries, wc, wt, 0, (idx[0] % 2) as u8, true));
        }
    }
    out.push(("F4-with-tag-models", f4));
    out
}

/// Edge shapes of well-formed models that the pattern-pool families do not produce: a window of 0
/// (what training with --charw 0 / --typew 0 yields: dictionary words do not depend on the
/// window), a single kind of pattern only, no pattern at all.
pub fn edge_family() -> Vec<(String, ModelSpec)> {
    let mut models = vec![];
    let d = |s: &str| Entry::Dict(s.to_string());
    let c = |s: &str| Entry::Char(s.to_string());
    let t = |v: &[u8]| Entry::Type(v.to_vec());
    let edge: Vec<(u8, u8, Vec<Entry>)> = vec![
        (0, 0, vec![d("a"), d("ab")]),
        (0, 2, vec![d("あa"), t(&[2, 3])]),
        (0, 3, vec![d("b"), t(&[2]), t(&[3, 2, 2])]),
        (2, 0, vec![c("a"), c("ab"), d("ba")]),
        (1, 0, vec![c("あ")]),
        (0, 0, vec![]),
        (2, 2, vec![d("abab"), d("bab"), d("ab"), d("b")]),
        (3, 3, vec![t(&[2, 2, 3]), t(&[2, 3]), t(&[3])]),
        (4, 4, vec![t(&[2, 2, 3]), t(&[2, 3]), c("ab")]),
    ];
    for (wc, wt, entries) in edge {
        for (bias, scheme) in [(0, 0u8), (1, 2), (-3, 1)] {
            for tags in [false, true] {
                if tags && (wc == 0 || wt == 0) {
                    continue; // attach_tags uses relative positions up to 1: keep them inside the window
                }
                let b = mk(&entries, wc, wt, bias, scheme, tags);
                models.push((format!("edge {}", b.desc), b.spec));
            }
        }
    }
    models
}

/// F12: ONE long vector per model - a dictionary word of 254..1024 characters (thorough: up to the documented limit 32767), a unigram
/// under window 255 (510 weights), a tag category with 255..600 candidates (bias and tag weights that long). Each
/// comes with texts that contain the long pattern (the short common texts never do).
pub fn long_vector_family(tier: Tier) -> Vec<(String, ModelSpec, Vec<String>)> {
    use crate::mirror::{TagModel, TagNgramData, TagWeight};
    let mut out = vec![];
    let lens: Vec<usize> = tier.pick(vec![254usize, 255, 256, 510, 511, 512, 1024], vec![254, 255, 256, 510, 511, 512, 1024, 4096, 32766, 32767]);
    // (32767 characters is the scorers' documented limit for a dictionary word: Predictor::new rejects longer ones)
    for (i, &l) in lens.iter().enumerate() {
        let word = "a".repeat(l);
        let b = mk(&[Entry::Dict(word.clone()), Entry::Char("a".into())], 2, 1, 0, (i % 2) as u8, i % 3 == 0);
        let mut other = "a".repeat(l - 1);
        other.push('あ');
        out.push((format!("long dictionary word of {l} characters"), b.spec, vec![word.clone(), format!("b{word}b"), format!("{word}a"), other]));
    }
    // a LONG word that is a proper suffix of a longer one (and of a third): the suffix merge must add its weights
    // whatever the byte length of the suffix (21..129 characters of 1 and of 3 bytes: 21..387 bytes)
    for &l in &[21usize, 22, 42, 43, 63, 64, 65, 85, 86, 127, 128, 129] {
        for (ci, unit) in ["ab", "火星"].iter().enumerate() {
            let sfx: String = unit.chars().cycle().take(l).collect();
            let p1 = format!("b{sfx}");
            let p2 = format!("あb{sfx}");
            let b = mk(&[Entry::Dict(p1.clone()), Entry::Dict(sfx.clone()), Entry::Dict(p2.clone()), Entry::Char("a".into())], 2, 1, 0, ((l + ci) % 2) as u8, l % 3 == 0);
            out.push((format!("suffix word of {l} characters ({} bytes) under two longer words", sfx.len()), b.spec, vec![sfx.clone(), p1.clone(), p2.clone(), format!("x{p1}y"), format!("a{sfx}a"), format!("{p2}{p1}")]));
        }
    }
    for (which, w) in [(0u8, 255u8), (1, 255), (0, 254), (0, 128)] {
        let b = if which == 0 { mk(&[Entry::Char("a".into()), Entry::Char("ab".into())], w, 1, 1, 0, false) } else { mk(&[Entry::Type(vec![2]), Entry::Type(vec![2, 3])], 1, w, 1, 1, false) };
        out.push((format!("window {w} ({})", if which == 0 { "characters" } else { "types" }), b.spec, vec!["a".repeat(300), "ab".repeat(260), format!("{}あ{}", "a".repeat(256), "b".repeat(257))]));
    }
    for k in [255usize, 256, 257, 511, 512, 513, 600] {
        let mut m = models::build(&[Entry::Char("a".into())], 2, 2, 1, 0);
        let wv = |salt: usize| -> Vec<i32> { (0..k).map(|c| models::weight(0, salt, c) / 30).collect() };
        m.tag_models.push(TagModel {
            token: "a".into(),
            tags: vec![(0..k).map(|c| format!("t{c}")).collect(), vec!["only".into()]],
            char_ngram_model: vec![TagNgramData { ngram: "a".into(), weights: vec![TagWeight { rel_position: 0, weights: wv(1) }] }, TagNgramData { ngram: "ba".into(), weights: vec![TagWeight { rel_position: 0, weights: wv(2) }] }],
            type_ngram_model: vec![TagNgramData { ngram: vec![2], weights: vec![TagWeight { rel_position: 1, weights: wv(3) }] }],
            bias: wv(4),
        });
        out.push((format!("tag category with {k} candidates"), m, vec![]));
    }
    out
}

/// F13: MANY entries of one kind (1024/1025 and 4097; thorough also 65537): dictionary records, character n-grams,
/// type n-grams (as many distinct ones of length <= 5 as asked, capped by 6^1+..+6^5). The entries the short texts
/// exercise ("a", "ab", "b", type 2 / 2,2) are the FIRST, a MIDDLE and the LAST entries of the list.
pub fn many_entries_family(tier: Tier) -> Vec<(String, ModelSpec)> {
    use crate::mirror::{NgramData, WordWeightRecord};
    let filler = |i: usize| -> String {
        // distinct strings over c..z, never containing a or b
        let mut s = String::new();
        let mut k = i;
        loop {
            s.push((b'c' + (k % 24) as u8) as char);
            k /= 24;
            if k == 0 {
                break;
            }
        }
        s
    };
    let mut out = vec![];
    for n in tier.pick(vec![1024usize, 1025, 4097], vec![1024, 1025, 4097, 65537]) {
        let real = |i: usize| -> Option<&'static str> { [(0, "a"), (n / 2, "ab"), (n - 1, "b")].iter().find(|x| x.0 == i).map(|x| x.1) };
        {
            let mut m = models::build(&[Entry::Char("a".into())], 2, 2, 1, 0);
            m.dict_model = (0..n).map(|i| { let w = real(i).map(|x| x.to_string()).unwrap_or_else(|| filler(i)); let l = w.chars().count(); WordWeightRecord { weights: (0..l + 1).map(|k| models::weight(0, i % 97, k)).collect(), comment: String::new(), word: w } }).collect();
            out.push((format!("{n} dictionary records"), m));
        }
        {
            let mut m = models::build(&[Entry::Dict("ba".into())], 2, 2, -1, 1);
            m.char_ngram_model = (0..n).map(|i| { let w = real(i).map(|x| x.to_string()).unwrap_or_else(|| filler(i)); let l = w.chars().count(); NgramData { weights: (0..5 - l).map(|k| models::weight(1, i % 89, k)).collect(), ngram: w } }).filter(|d| d.ngram.chars().count() <= 4).collect();
            out.push((format!("{n} character n-grams"), m));
        }
        {
            let mut m = models::build(&[Entry::Char("a".into())], 1, 3, 0, 0);
            let cap = n.min(6 + 36 + 216 + 1296 + 7776);
            m.type_ngram_model = (0..cap).map(|i| {
                // the i-th type string in length-then-lexicographic order over 1..=6
                let (mut len, mut k, mut block) = (1usize, i, 6usize);
                while k >= block { k -= block; len += 1; block *= 6; }
                let ng: Vec<u8> = (0..len).map(|p| 1 + ((k / 6usize.pow((len - 1 - p) as u32)) % 6) as u8).collect();
                NgramData { weights: (0..7 - len).map(|q| models::weight(0, i % 83, q)).collect(), ngram: ng }
            }).collect();
            out.push((format!("{cap} type n-grams"), m));
        }
    }
    out
}

/// F15: dictionary words and character n-grams made of characters OUTSIDE the BMP (4-byte UTF-8), alone and mixed
/// with 1- and 3-byte characters; every subset of up to 2 of 6 such entries plus one fixed companion.
pub fn nonbmp_family() -> Vec<Built> {
    let pool = [Entry::Dict("𠀋".into()), Entry::Dict("a𠀋".into()), Entry::Dict("𠀋𠀋a".into()), Entry::Dict("あ𠀋".into()), Entry::Char("𠀋a".into()), Entry::Char("𠀋".into())];
    let mut out = vec![];
    for sub in gen::subsets_upto(pool.len(), 2).into_iter().skip(1) {
        let mut es: Vec<Entry> = sub.iter().map(|&i| pool[i].clone()).collect();
        es.push(Entry::Char("a".into()));
        for (k, (w, tags)) in [(1u8, false), (2, true), (3, false)].into_iter().enumerate() {
            let es2: Vec<Entry> = es.iter().filter(|e| models::admissible(e, w, w)).cloned().collect();
            out.push(mk(&es2, w, w, [0, 3, -5][k], (k % 2) as u8, tags));
        }
    }
    out
}

/// Texts longer than twice the largest window of the sparse family (the far entries of a long weight vector reach a
/// boundary only there), containing its unigram, its type run and its dictionary words.
pub fn long_window_texts() -> Vec<String> {
    vec!["a".repeat(30), "ab".repeat(15), format!("{}a{}", "b".repeat(14), "b".repeat(14)), format!("あ{}あ", "ab".repeat(13)), format!("{}あ{}", "a".repeat(13), "ab".repeat(9))]
}

/// Sparse large-window models: the weight vectors are long (window >= 8) but only their first
/// few entries are non-zero, so any "effective length" shortcut (trimmed zeros) meets the
/// variable-length arithmetic for patterns hanging over the sentence start.
pub fn sparse_large_window_family() -> Vec<(String, ModelSpec)> {
    let mut out = vec![];
    for w in [8u8, 9, 12] {
        for nz in [1usize, 3, 8] {
            for kind in 0..3u8 {
                let mut m = ModelSpec { bias: 1, char_window_size: if kind == 1 { 2 } else { w }, type_window_size: if kind == 1 { w } else { 2 }, ..Default::default() };
                let n = 2 * w as usize; // unigram: 2W weights
                let weights: Vec<i32> = (0..n).map(|k| if k < nz { 100 + k as i32 * 7 } else { 0 }).collect();
                match kind {
                    0 => m.char_ngram_model.push(crate::mirror::NgramData { ngram: "a".into(), weights }),
                    1 => m.type_ngram_model.push(crate::mirror::NgramData { ngram: vec![2], weights }),
                    _ => {
                        m.char_ngram_model.push(crate::mirror::NgramData { ngram: "a".into(), weights: weights.clone() });
                        let mut w2 = weights[..n - 1].to_vec();
                        w2.reverse(); // non-zeros at the END for the bigram
                        m.char_ngram_model.push(crate::mirror::NgramData { ngram: "ba".into(), weights: w2 });
                    }
                }
                out.push((format!("sparse-large-window w={w} nonzero={nz} kind={kind}"), m));
            }
        }
        // mirrored: non-zeros ONLY in the last 1 / 2 / 3 entries (every leading full block of 8 is zero), in a
        // character unigram, a type unigram and a dictionary word of 2W-1 characters; with and without tag models
        // (the tag-aware scorers keep their own copies of the boundary weights)
        for tail in [1usize, 2, 3] {
            for kind in 0..3u8 {
                for tags in [false, true] {
                    let mut m = ModelSpec { bias: -1, char_window_size: if kind == 1 { 2 } else { w }, type_window_size: if kind == 1 { w } else { 2 }, ..Default::default() };
                    let n = 2 * w as usize;
                    let weights: Vec<i32> = (0..n).map(|k| if k + tail >= n { 300 + k as i32 * 11 } else { 0 }).collect();
                    match kind {
                        0 => m.char_ngram_model.push(crate::mirror::NgramData { ngram: "a".into(), weights }),
                        1 => m.type_ngram_model.push(crate::mirror::NgramData { ngram: vec![2], weights }),
                        _ => {
                            m.char_ngram_model.push(crate::mirror::NgramData { ngram: "b".into(), weights: vec![0; n] });
                            m.dict_model.push(crate::mirror::WordWeightRecord { word: "ab".repeat(w as usize).chars().take(n - 1).collect(), weights, comment: String::new() });
                        }
                    }
                    if tags {
                        models::attach_tags(&mut m);
                    }
                    out.push((format!("sparse-large-window w={w} tail-nonzero={tail} kind={kind} tags={}", tags as u8), m));
                }
            }
        }
    }
    out
}

/// F8: EVERY assignment of weights from {-1, 0, +1} to a fixed suffix-related entry set, so that
/// every exact cancellation between an entry and its suffixes (n-gram vs n-gram, n-gram vs
/// dictionary word) and every all-zero merged vector occurs; the other families use weights that
/// cannot cancel by construction.
pub fn ternary_family(tier: Tier) -> Vec<Built> {
    use crate::mirror::{NgramData, WordWeightRecord};
    let mut out = vec![];
    // (window, char n-grams, dictionary words, type n-grams)
    let sets: Vec<(u8, Vec<&str>, Vec<&str>, Vec<Vec<u8>>)> = tier.pick(
        vec![(1, vec!["a", "あa"], vec!["a", "あa"], vec![]), (1, vec![], vec![], vec![vec![2], vec![3, 2], vec![3]]), (2, vec!["a", "あa"], vec![], vec![])],
        vec![(1, vec!["a", "あa"], vec!["a", "あa"], vec![]), (1, vec![], vec![], vec![vec![2], vec![3, 2], vec![3]]), (2, vec!["a", "あa", "aあa"], vec![], vec![]), (2, vec!["a"], vec!["a", "あa"], vec![]), (2, vec![], vec![], vec![vec![2], vec![3, 2], vec![2, 3, 2]])],
    );
    for (si, (w, cs, ds, ts)) in sets.iter().enumerate() {
        let lens: Vec<usize> = cs.iter().map(|c| 2 * *w as usize + 1 - c.chars().count()).chain(ds.iter().map(|d| d.chars().count() + 1)).chain(ts.iter().map(|t| 2 * *w as usize + 1 - t.len())).collect();
        let total: usize = lens.iter().sum();
        for v in gen::vectors(3, total) {
            let mut it = v.iter().map(|&x| x as i32 - 1);
            let mut m = ModelSpec { bias: 0, char_window_size: *w, type_window_size: *w, ..Default::default() };
            for c in cs {
                let n = 2 * *w as usize + 1 - c.chars().count();
                m.char_ngram_model.push(NgramData { ngram: c.to_string(), weights: it.by_ref().take(n).collect() });
            }
            for d in ds {
                let n = d.chars().count() + 1;
                m.dict_model.push(WordWeightRecord { word: d.to_string(), weights: it.by_ref().take(n).collect(), comment: String::new() });
            }
            for t in ts {
                let n = 2 * *w as usize + 1 - t.len();
                m.type_ngram_model.push(NgramData { ngram: t.clone(), weights: it.by_ref().take(n).collect() });
            }
            let code: String = v.iter().map(|&x| ['-', '0', '+'][x as usize]).collect();
            out.push(Built { spec: m, desc: format!("ternary set={si} w={w} weights={code}") });
        }
    }
    out
}

/// F9: weight vectors whose first k (and, mirrored, last k) entries are zero, for every k, on every
/// kind of entry (character n-gram, type n-gram, dictionary word) and windows 1..=4 and 9: any
/// "skip the zeros and shift the position" shortcut meets the sentence start / end here.
pub fn leading_zero_family() -> Vec<(String, ModelSpec)> {
    use crate::mirror::{NgramData, WordWeightRecord};
    let mut out = vec![];
    for w in [1u8, 2, 3, 4, 9] {
        for kind in 0..3u8 {
            let len = match kind {
                0 | 1 => 2 * w as usize, // unigram
                _ => 3,                  // dictionary word "ab": 3 weights
            };
            for k in 1..len {
                for mirrored in [false, true] {
                    let mut wv: Vec<i32> = (0..len).map(|i| if i < k { 0 } else { 5 + 3 * i as i32 }).collect();
                    if mirrored {
                        wv.reverse();
                    }
                    let mut m = ModelSpec { bias: -1, char_window_size: w, type_window_size: w, ..Default::default() };
                    match kind {
                        0 => m.char_ngram_model.push(NgramData { ngram: "a".into(), weights: wv }),
                        1 => m.type_ngram_model.push(NgramData { ngram: vec![2], weights: wv }),
                        _ => m.dict_model.push(WordWeightRecord { word: "ab".into(), weights: wv, comment: String::new() }),
                    }
                    // a second entry of another kind so that both scorers exist
                    if kind == 0 {
                        m.type_ngram_model.push(NgramData { ngram: vec![3], weights: vec![1; 2 * w as usize] });
                    } else {
                        m.char_ngram_model.push(NgramData { ngram: "あ".into(), weights: vec![1; 2 * w as usize] });
                    }
                    out.push((format!("leading-zeros w={w} kind={kind} k={k} mirrored={}", mirrored as u8), m));
                }
            }
        }
    }
    out
}

/// F10: models whose type n-grams fill only one region of the cached type scorer's table (type
/// windows 1..=3): a single n-gram spanning the whole window (length 2W) or all but one position,
/// starting with each character type that the evaluation alphabets contain, and pairs of them - the
/// non-zero table entries then sit only in the lower / only in the upper part of the table.
pub fn cache_table_family() -> Vec<(String, ModelSpec)> {
    use crate::mirror::NgramData;
    let mut out = vec![];
    let types = [2u8, 3, 5]; // Roman, Hiragana, Kanji ('a'/'b', 'あ', '𠀋')
    for w in 1u8..=3 {
        for len in [2 * w as usize, (2 * w as usize).max(2) - 1] {
            let mut singles = vec![];
            // the left-most type ranges over ALL six character types (also those that do not occur in the
            // evaluation texts: a table lookup that loses high bits of the left-most type id makes a text
            // with another type there hit their entries)
            for first in 1u8..=6 {
                for &fill in &types {
                    let ng: Vec<u8> = (0..len).map(|i| if i == 0 { first } else if i % 2 == 1 { fill } else { first }).collect();
                    let n = 2 * w as usize + 1 - len;
                    singles.push(NgramData { ngram: ng, weights: (0..n).map(|k| 7 + 4 * k as i32 + first as i32).collect() });
                }
            }
            singles.dedup_by(|a, b| a.ngram == b.ngram);
            for (i, a) in singles.iter().enumerate() {
                let mut m = ModelSpec { bias: -2, char_window_size: 1, type_window_size: w, ..Default::default() };
                m.type_ngram_model.push(a.clone());
                out.push((format!("cache-table w={w} ngram={:?}", a.ngram), m.clone()));
                if let Some(b) = singles.get(i + 1) {
                    if b.ngram != a.ngram {
                        m.type_ngram_model.push(b.clone());
                        out.push((format!("cache-table w={w} ngrams={:?}+{:?}", a.ngram, b.ngram), m));
                    }
                }
            }
        }
    }
    out
}

/// F3: large windows; single- and two-entry models; long runs.
fn f3(tier: Tier) -> (Vec<Built>, Vec<Vec<char>>) {
    let mut ms = vec![];
    let ws: Vec<u8> = tier.pick(vec![5, 8, 9], vec![5, 7, 8, 9, 16, 255]);
    let mut lens_all = std::collections::BTreeSet::new();
    for &w in &ws {
        let w2 = 2 * w as usize;
        let mut lens: Vec<usize> = vec![1, 2, w2.saturating_sub(8), w2 - 7, w2 - 1, w2];
        lens.retain(|&l| l >= 1 && l <= w2);
        lens.sort();
        lens.dedup();
        for &l in &lens {
            lens_all.insert(l);
            let run: String = std::iter::repeat('a').take(l).collect();
            let mixed: String = std::iter::repeat('a').take(l - 1).chain(std::iter::once('あ')).collect();
            let trun: Vec<u8> = vec![2; l];
            let mut tmixed = vec![2u8; l];
            *tmixed.last_mut().unwrap() = 3;
            ms.push(mk(&[Entry::Char(run.clone())], w, 1, 0, 0, false));
            ms.push(mk(&[Entry::Char(mixed.clone())], w, 1, 0, 1, false));
            ms.push(mk(&[Entry::Type(trun.clone())], 1, w, 0, 0, false));
            ms.push(mk(&[Entry::Type(tmixed.clone())], 1, w, 0, 1, false));
            ms.push(mk(&[Entry::Char(run.clone()), Entry::Type(tmixed.clone())], w, w, 1, 0, false));
            ms.push(mk(&[Entry::Char(mixed.clone()), Entry::Char("a".into())], w, 1, 0, 0, false));
            ms.push(mk(&[Entry::Type(trun), Entry::Type(vec![2])], 1, w, 0, 1, true));
            ms.push(mk(&[Entry::Char(run), Entry::Dict("aa".into())], w, 2, 0, 1, true));
        }
    }
    for l in [1usize, 7, 8, 9, 12] {
        let word: String = std::iter::repeat('a').take(l).collect();
        let word2: String = std::iter::repeat('a').take(l - 1).chain(std::iter::once('あ')).collect();
        ms.push(mk(&[Entry::Dict(word.clone())], 1, 1, 0, 0, false));
        ms.push(mk(&[Entry::Dict(word.clone()), Entry::Char("a".into())], 3, 1, 0, 1, false));
        ms.push(mk(&[Entry::Dict(word2), Entry::Dict(word)], 2, 1, -1, 0, true));
        lens_all.insert(l);
    }
    // texts: runs and runs with one あ, lengths around every interesting size
    let mut tl = std::collections::BTreeSet::new();
    for &l in &lens_all {
        for d in 0..=2usize {
            tl.insert(l + d);
            tl.insert((l + 1).saturating_sub(d).max(1));
        }
    }
    for &w in &ws {
        for d in 0..=3 {
            tl.insert((w as usize + d).max(1));
            tl.insert((w as usize + 1).saturating_sub(d).max(1));
            tl.insert(2 * w as usize + d);
        }
    }
    let mut texts = vec![];
    for &n in &tl {
        if n > 600 {
            continue;
        }
        texts.push(vec!['a'; n]);
        for p in [0usize, n / 2, n - 1] {
            let mut t = vec!['a'; n];
            t[p] = 'あ';
            texts.push(t);
        }
    }
    texts.sort();
    texts.dedup();
    (ms, texts)
}

pub fn run(tier: Tier) -> ! {
    let chk = Check::new("C01", tier, "exploration");
    quiet_panics();
    let sigma: Vec<char> = tier.pick(vec!['a', 'あ', '𠀋'], vec!['a', 'あ', '𠀋', 'é']);
    let l = tier.pick(5, 6);
    let texts = gen::strings(&sigma, 1, l);
    chk.set("text_alphabet", json!(sigma.iter().collect::<String>()));
    chk.set("max_text_len", json!(l));
    chk.set("texts", json!(texts.len()));
    let mut fam_counts = serde_json::Map::new();
    for (name, ms) in families(tier) {
        fam_counts.insert(name.to_string(), json!(ms.len()));
        ms.par_iter().enumerate().for_each(|(i, b)| check_model(&chk, b, &texts, i % 4 == 0 || !b.spec.tag_models.is_empty()));
    }
    // F5: edge shapes (window 0 with a dictionary, single-kind models, the empty model)
    let f5: Vec<Built> = edge_family().into_iter().map(|(desc, spec)| Built { spec, desc }).collect();
    fam_counts.insert("F5-edge-shapes".into(), json!(f5.len()));
    f5.par_iter().for_each(|b| check_model(&chk, b, &texts, true));
    // F6: scale-up spot family — 8-12 interacting entries over all six character types, long texts
    {
        let alpha = ['1', 'a', 'あ', 'ア', '亜', '。', '𠀋', 'Ｚ'];
        let mut entries = vec![];
        for (i, w) in ["a1", "1", "あア", "亜。", "ア", "a", "𠀋亜", "Ｚa", "。"].iter().enumerate() {
            entries.push(if i % 2 == 0 { Entry::Char(w.to_string()) } else { Entry::Dict(w.to_string()) });
        }
        for t in [vec![1u8], vec![2, 1], vec![3, 4], vec![5, 6, 5], vec![4], vec![6, 6], vec![2, 2, 2, 2]] {
            entries.push(Entry::Type(t));
        }
        let mut ms6 = vec![];
        for (wc, wt) in [(2u8, 2u8), (3, 3), (2, 5), (7, 3), (4, 9)] {
            for k in [8usize, 12, entries.len()] {
                let es: Vec<Entry> = entries.iter().take(k).filter(|e| models::admissible(e, wc, wt)).cloned().collect();
                for scheme in 0..2u8 {
                    for tags in [false, true] {
                        ms6.push(mk(&es, wc, wt, 1, scheme, tags));
                    }
                }
            }
        }
        // long texts: every rotation of the alphabet repeated, plus runs
        let mut t6: Vec<Vec<char>> = vec![];
        for rot in 0..alpha.len() {
            for len in [9usize, 16, 33, 64] {
                t6.push((0..len).map(|i| alpha[(i * (rot + 1) + rot) % alpha.len()]).collect());
            }
        }
        for &c in &alpha {
            t6.push(vec![c; 20]);
        }
        fam_counts.insert("F6-scale-up".into(), json!(ms6.len()));
        chk.set("f6_texts", json!(t6.len()));
        ms6.par_iter().for_each(|b| check_model(&chk, b, &t6, true));
        // F11: lengths around the sizes at which an index type, a chunk or a buffer could change
        // (u8, 1 KiB, 4 KiB; thorough also u16): a rotation text, a run, and a run ending in another script
        let mut t11: Vec<Vec<char>> = vec![];
        for len in tier.pick(vec![255usize, 256, 257, 1024, 1025], vec![255, 256, 257, 1024, 1025, 4096, 4097, 65535, 65536, 65537]) {
            t11.push((0..len).map(|i| alpha[(i * 3 + i / 7) % alpha.len()]).collect());
            t11.push((0..len).map(|i| alpha[(gen::mix(i as u64) % alpha.len() as u64) as usize]).collect());
            t11.push(vec!['a'; len]);
            t11.push((0..len + 3).map(|i| alpha[i % 2]).collect());
            let mut t = vec!['a'; len];
            t[len - 1] = 'あ';
            t11.push(t);
        }
        let ms11: Vec<&Built> = ms6.iter().step_by(tier.pick(7, 3)).collect();
        fam_counts.insert("F11-threshold-lengths".into(), json!(ms11.len()));
        chk.set("f11_text_lengths", json!(t11.iter().map(|t| t.len()).collect::<std::collections::BTreeSet<_>>()));
        ms11.par_iter().for_each(|b| check_model(&chk, b, &t11, true));
        // quick tier: the u16 threshold on two models only (thorough has it in the list above)
        if tier == Tier::Quick {
            let mut t16: Vec<Vec<char>> = vec![];
            for len in [65535usize, 65540] {
                t16.push((0..len).map(|i| alpha[(i * 3 + i / 7) % alpha.len()]).collect());
                t16.push((0..len).map(|i| alpha[i % 2]).collect());
            }
            ms11.par_iter().take(2).for_each(|b| check_model(&chk, b, &t16, true));
        }
    }
    {
        let f12 = long_vector_family(tier);
        fam_counts.insert("F12-long-vectors".into(), json!(f12.len()));
        f12.par_iter().for_each(|(desc, spec, extra)| {
            let mut t: Vec<Vec<char>> = extra.iter().map(|x| x.chars().collect()).collect();
            t.extend(gen::strings(&['a', 'b'], 1, 3));
            check_model(&chk, &Built { spec: spec.clone(), desc: desc.clone() }, &t, true);
        });
    }
    // F14: weights of 32-bit magnitude (scheme 4) on the F6 entry sets, short texts
    {
        let mut f14 = vec![];
        let es = [Entry::Char("a".into()), Entry::Dict("ab".into()), Entry::Char("ba".into()), Entry::Type(vec![2]), Entry::Type(vec![2, 2]), Entry::Dict("a".into()), Entry::Type(vec![3, 2])];
        for (wc, wt) in [(1u8, 1u8), (2, 2), (3, 3), (2, 5), (5, 2), (9, 3)] {
            for k in [2usize, 4, 7] {
                for tags in [false, true] {
                    f14.push(mk(&es[..k], wc, wt, [0, 1 << 26, -(1 << 27)][k % 3], 4, tags));
                }
            }
        }
        fam_counts.insert("F14-32-bit-weights".into(), json!(f14.len()));
        f14.par_iter().for_each(|b| check_model(&chk, b, &texts, true));
    }
    {
        let f15 = nonbmp_family();
        let t15 = gen::strings(&['a', '𠀋', 'あ'], 1, tier.pick(4, 5));
        fam_counts.insert("F15-non-BMP-entries".into(), json!(f15.len()));
        f15.par_iter().for_each(|b| check_model(&chk, b, &t15, true));
    }
    let f13: Vec<Built> = many_entries_family(tier).into_iter().map(|(desc, spec)| Built { spec, desc }).collect();
    fam_counts.insert("F13-many-entries".into(), json!(f13.len()));
    f13.par_iter().for_each(|b| check_model(&chk, b, &texts, true));
    let f7: Vec<Built> = sparse_large_window_family().into_iter().map(|(desc, spec)| Built { spec, desc }).collect();
    fam_counts.insert("F7-sparse-large-window".into(), json!(f7.len()));
    let t7: Vec<Vec<char>> = texts.iter().cloned().chain(long_window_texts().iter().map(|t| t.chars().collect())).collect();
    f7.par_iter().for_each(|b| check_model(&chk, b, &t7, true));
    {
        let f8 = ternary_family(tier);
        let t8 = gen::strings(&['a', 'あ'], 1, tier.pick(4, 5));
        fam_counts.insert("F8-ternary-weights".into(), json!(f8.len()));
        chk.set("f8_texts", json!(t8.len()));
        f8.par_iter().enumerate().for_each(|(i, b)| check_model(&chk, b, &t8, i % 16 == 0));
    }
    let f10: Vec<Built> = cache_table_family().into_iter().map(|(desc, spec)| Built { spec, desc }).collect();
    fam_counts.insert("F10-cache-table-regions".into(), json!(f10.len()));
    f10.par_iter().for_each(|b| check_model(&chk, b, &texts, true));
    let f9: Vec<Built> = leading_zero_family().into_iter().map(|(desc, spec)| Built { spec, desc }).collect();
    fam_counts.insert("F9-leading-zeros".into(), json!(f9.len()));
    f9.par_iter().for_each(|b| check_model(&chk, b, &texts, true));
    let (ms, t3) = f3(tier);
    fam_counts.insert("F3-large-windows".into(), json!(ms.len()));
    chk.set("f3_texts", json!(t3.len()));
    ms.par_iter().for_each(|b| check_model(&chk, b, &t3, true));
    chk.set("models_per_family", Value::Object(fam_counts));
    chk.assume("reference position law fixed from README dictionary example and scorer unit-test diagrams (refmodel.rs)");
    chk.assume("character types taken from CharacterType::get_type");
    chk.assume("sums stay within i32 (README: overflow is the caller's problem)");
    chk.finish(
        "every (model, predict_tags, text, initial labels) in the stated families x all texts over the alphabet up to max length; non-trivial = some model entry occurs in the text and changes a boundary score; cases distinct by construction",
        true,
        &replay,
    )
}
