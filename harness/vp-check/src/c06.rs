//! C06 — predicted tags equal the per-token linear classifiers. Engine E1.

use crate::gen::{self, mix};
use crate::mirror::*;
use crate::obs::{cands_of, label, tokens_of};
use crate::refmodel::*;
use crate::report::*;
use rayon::prelude::*;
use serde::{Deserialize, Serialize};
use serde_json::{json, Value};
use vaporetto::{Predictor, Sentence};

#[derive(Clone, Debug, Serialize, Deserialize, PartialEq, Eq, Hash)]
pub enum TagNg {
    Char(String, u8),
    Type(Vec<u8>, u8),
}

fn tw(scheme: u8, salt: u64, n_class: usize) -> Vec<i32> {
    (0..n_class)
        .map(|k| {
            let h = mix(salt.wrapping_mul(1315423911) ^ (k as u64) << 8 ^ scheme as u64);
            match scheme {
                0 => (h % 2001) as i32 - 1000,
                _ => (h % 5) as i32 - 2, // ties and exact zeros
            }
        })
        .collect()
}

/// Builds one tag model: `shape[j]` candidates in category j.
pub fn tag_model(token: &str, shape: &[usize], ngrams: &[TagNg], scheme: u8, salt: u64) -> TagModel {
    let tags: Vec<Vec<String>> = shape.iter().enumerate().map(|(j, &c)| (0..c).map(|i| format!("{token}{j}{}", (b'A' + i as u8) as char)).collect()).collect();
    let n_class: usize = shape.iter().filter(|&&c| c >= 2).sum();
    let mut cm: Vec<TagNgramData<String>> = vec![];
    let mut tm: Vec<TagNgramData<Vec<u8>>> = vec![];
    for (i, ng) in ngrams.iter().enumerate() {
        let w = tw(scheme, salt ^ ((i as u64 + 1) << 32), n_class);
        match ng {
            TagNg::Char(s, r) => {
                if let Some(d) = cm.iter_mut().find(|d| &d.ngram == s) {
                    d.weights.push(TagWeight { rel_position: *r, weights: w });
                } else {
                    cm.push(TagNgramData { ngram: s.clone(), weights: vec![TagWeight { rel_position: *r, weights: w }] });
                }
            }
            TagNg::Type(t, r) => {
                if let Some(d) = tm.iter_mut().find(|d| &d.ngram == t) {
                    d.weights.push(TagWeight { rel_position: *r, weights: w });
                } else {
                    tm.push(TagNgramData { ngram: t.clone(), weights: vec![TagWeight { rel_position: *r, weights: w }] });
                }
            }
        }
    }
    TagModel { token: token.into(), tags, char_ngram_model: cm, type_ngram_model: tm, bias: tw(scheme, salt ^ 0xb1a5, n_class) }
}

fn nd<T>(ngram: T, weights: Vec<i32>) -> NgramData<T> {
    NgramData { ngram, weights }
}

/// Boundary parts. 0: char + type + dict patterns; 1: only type n-grams (no boundary pattern
/// of the character kind); 2: only char n-grams; 3: no boundary pattern at all.
pub fn boundary_part(kind: u8, w: u8) -> ModelSpec {
    let n = |len: usize| 2 * w as usize + 1 - len;
    let wv = |len: usize, salt: u64| -> Vec<i32> { (0..n(len)).map(|k| (mix(salt ^ k as u64) % 21) as i32 - 10).collect() };
    let mut m = ModelSpec { bias: 1, char_window_size: w, type_window_size: w, ..Default::default() };
    if kind == 0 || kind == 2 {
        m.char_ngram_model.push(nd("a".to_string(), wv(1, 11)));
        m.char_ngram_model.push(nd("ab".to_string(), wv(2, 12)));
        if kind == 0 {
            m.dict_model.push(WordWeightRecord { word: "ba".into(), weights: vec![3, -4, 3], comment: "".into() });
        }
    }
    if kind == 0 || kind == 1 {
        m.type_ngram_model.push(nd(vec![2u8], wv(1, 13)));
        m.type_ngram_model.push(nd(vec![3u8, 2], wv(2, 14)));
    }
    m
}

pub fn ngram_pool(w: u8) -> Vec<TagNg> {
    let mut p = vec![
        TagNg::Char("a".into(), 0),
        TagNg::Char("a".into(), 1.min(w)),
        TagNg::Char("ba".into(), 0),
        TagNg::Char("ab".into(), 1.min(w)),
        TagNg::Char("aab".into(), w),
        TagNg::Char("あ".into(), 0),
        TagNg::Char("bあ".into(), w),
        TagNg::Type(vec![2], 0),
        TagNg::Type(vec![2, 2], 1.min(w)),
        TagNg::Type(vec![3, 2], 0),
        TagNg::Type(vec![2], w),
        TagNg::Type(vec![2, 3, 2], w),
        // beyond the window: the trainer emits relative positions up to the n-gram size, which may exceed it
        TagNg::Char("ab".into(), w + 1),
        TagNg::Type(vec![2, 2], w + 2),
    ];
    p.dedup();
    let mut out: Vec<TagNg> = vec![];
    for x in p.drain(..) {
        if !out.contains(&x) {
            out.push(x);
        }
    }
    out
}

/// Tag biases / tag weight vectors with trailing zeros, all zeros, half zeros and a leading zero,
/// for class counts on both sides of the fixed(8)/variable switch.
pub fn zero_tag_family() -> Vec<(String, ModelSpec)> {
    let mut pool = vec![];
    for shape in [vec![2usize], vec![3, 2], vec![8], vec![9], vec![5, 5], vec![2, 9], vec![3, 3, 3]] {
        for zero_pattern in 0..4u8 {
            let mut m = boundary_part(0, 2);
            let pool6 = ngram_pool(2);
            let mut tm = tag_model("a", &shape, &[pool6[0].clone(), pool6[3].clone(), pool6[7].clone()], 0, 77);
            let z = |v: &mut Vec<i32>| match zero_pattern {
                0 => v.iter_mut().for_each(|x| *x = 0),
                1 => {
                    if let Some(l) = v.last_mut() {
                        *l = 0
                    }
                }
                2 => {
                    let n = v.len();
                    v.iter_mut().skip(n / 2).for_each(|x| *x = 0)
                }
                _ => {
                    if let Some(f) = v.first_mut() {
                        *f = 0
                    }
                }
            };
            z(&mut tm.bias);
            for d in tm.char_ngram_model.iter_mut() {
                for w in d.weights.iter_mut() {
                    z(&mut w.weights);
                }
            }
            for d in tm.type_ngram_model.iter_mut() {
                for w in d.weights.iter_mut() {
                    z(&mut w.weights);
                }
            }
            m.tag_models.push(tm);
            m.tag_models.push(tag_model("ab", &[2, 2], &[pool6[2].clone()], 1, 78));
            pool.push((format!("tag-zeros shape={shape:?} pattern={zero_pattern}"), m));
        }
    }
    pool
}

/// T8: candidate scores of LARGE magnitude (weights are 32-bit in the model): biases from {0, +-1, 2^28-1, 2^28,
/// 2^28+1, +-3e8, +-2^30}, tag weights from {0, +-1, +-2^27, 5}, rotated over the candidates, for class counts on
/// both sides of the fixed(8)/variable switch; no sum leaves the i32 range.
pub fn extreme_tag_family() -> Vec<(String, ModelSpec)> {
    let big: [i32; 11] = [0, 1, -1, (1 << 28) - 1, 1 << 28, (1 << 28) + 1, 300_000_000, -300_000_000, 1 << 30, -(1 << 30), -(1 << 28)];
    let mid: [i32; 6] = [0, 1, -1, 1 << 27, -(1 << 27), 5];
    let mut pool = vec![];
    let pool6 = ngram_pool(2);
    for shape in [vec![3usize], vec![3, 2], vec![2, 2, 2], vec![9], vec![2, 3, 4]] {
        for k in 0..big.len() {
            let mut m = boundary_part(0, 2);
            let mut tm = tag_model("a", &shape, &[pool6[0].clone(), pool6[7].clone()], 0, 77);
            for (c, b) in tm.bias.iter_mut().enumerate() {
                *b = big[(c * 3 + k) % big.len()];
            }
            for d in tm.char_ngram_model.iter_mut() {
                for w in d.weights.iter_mut() {
                    for (c, x) in w.weights.iter_mut().enumerate() {
                        *x = mid[(c + k) % mid.len()];
                    }
                }
            }
            for d in tm.type_ngram_model.iter_mut() {
                for w in d.weights.iter_mut() {
                    for (c, x) in w.weights.iter_mut().enumerate() {
                        *x = mid[(c * 2 + k + 1) % mid.len()];
                    }
                }
            }
            m.tag_models.push(tm);
            pool.push((format!("T8 extreme tag scores shape={shape:?} rotation={k}"), m));
        }
    }
    pool
}

/// T7: container sizes beyond a few thousand entries (capacity / size thresholds of the serialised
/// maps): `n` tag-model tokens, and `n` tag n-grams for ONE (token, relative position). The tokens
/// and n-grams the texts exercise ("a", "ab", "b", "ba") are spread over the whole list.
pub fn scale_tag_family(n: usize) -> Vec<(String, ModelSpec)> {
    let filler = |i: usize| -> String {
        // distinct strings over c..z, never a substring pattern of the evaluation texts
        let mut s = String::new();
        let mut k = i;
        loop {
            s.push((b'c' + (k % 24) as u8) as char);
            k /= 24;
            if k == 0 {
                break;
            }
        }
        s
    };
    let mut out = vec![];
    let pool6 = ngram_pool(2);
    {
        let mut m = boundary_part(0, 2);
        let real = ["a", "ab", "b", "ba"];
        // the evaluated tokens sit at the start, at one and two thirds and at the very END of the list (an index
        // type too narrow for the list length shows on the last one)
        let at = [0, n / 3, 2 * n / 3, n - 1];
        for i in 0..n {
            if i != n - 1 {
                if let Some(r) = at.iter().position(|&a| a == i) {
                    m.tag_models.push(tag_model(real[r], &[3, 2], &[pool6[0].clone(), pool6[3].clone(), pool6[7].clone()], 0, 900 + i as u64));
                }
            }
            m.tag_models.push(tag_model(&filler(i), &[2], &[pool6[(i % 7) as usize].clone()], 0, i as u64));
        }
        m.tag_models.push(tag_model(real[3], &[3, 2], &[pool6[0].clone(), pool6[3].clone(), pool6[7].clone()], 0, 900 + n as u64));
        out.push((format!("T7 {n} tag tokens"), m));
    }
    {
        let mut m = boundary_part(0, 2);
        let mut ngs: Vec<TagNg> = vec![];
        for i in 0..n {
            if i % (n / 3).max(1) == 0 {
                ngs.push([TagNg::Char("a".into(), 0), TagNg::Char("ba".into(), 0), TagNg::Char("aa".into(), 0)][(i / (n / 3).max(1)) % 3].clone());
            }
            ngs.push(TagNg::Char(filler(i), 0));
        }
        m.tag_models.push(tag_model("a", &[3, 2], &ngs, 0, 4242));
        m.tag_models.push(tag_model("ab", &[2, 2], &[pool6[2].clone()], 1, 78));
        out.push((format!("T7 {n} tag n-grams at one position"), m));
    }
    // ONE suffix n-gram shared by many tokens (its merged table is large), and longer n-grams ending in it
    // that carry weights for the SAME (token, position) - the merge along the suffix chain must add, per token
    for k in [255usize, 256, 257, (n / 8).max(300)] {
        let mut m = boundary_part(0, 2);
        let chain = [TagNg::Char("a".into(), 0), TagNg::Char("ba".into(), 0), TagNg::Char("aba".into(), 0), TagNg::Type(vec![2], 0), TagNg::Type(vec![2, 2], 0)];
        for i in 0..k {
            if i % (k / 4).max(1) == 0 && i / (k / 4).max(1) < 4 {
                let t = ["a", "ab", "b", "ba"][i / (k / 4).max(1)];
                m.tag_models.push(tag_model(t, &[3, 2], &chain, 0, 7000 + i as u64));
            }
            m.tag_models.push(tag_model(&filler(i), &[2], &[chain[0].clone(), chain[3].clone()], 0, i as u64));
        }
        out.push((format!("T7 suffix n-gram shared by {k} tokens"), m));
    }
    out
}

/// T6: nested tag n-grams (suffix chains) for ONE token at the SAME relative position, each with
/// its own zero pattern (none / trailing zeros / all zero / leading zeros), for class counts on
/// both sides of the fixed(8)/variable switch: the merge along suffix chains must add every class.
pub fn nested_tag_family() -> Vec<(String, ModelSpec)> {
    let mut out = vec![];
    let zero = |v: &mut Vec<i32>, pat: u8| {
        let n = v.len();
        match pat {
            1 => v.iter_mut().skip(n / 2).for_each(|x| *x = 0),
            2 => v.iter_mut().for_each(|x| *x = 0),
            3 => v.iter_mut().take(n / 2).for_each(|x| *x = 0),
            _ => {}
        }
    };
    for shape in [vec![9usize], vec![5, 5], vec![3, 3, 3, 2], vec![2, 3]] {
        for r in 0..2u8 {
            for pats in gen::vectors(4, 3) {
                for kind in 0..2u8 {
                    let chain: Vec<TagNg> = if kind == 0 {
                        vec![TagNg::Char("a".into(), r), TagNg::Char("ba".into(), r), TagNg::Char("aba".into(), r)]
                    } else {
                        vec![TagNg::Type(vec![2], r), TagNg::Type(vec![2, 2], r), TagNg::Type(vec![3, 2, 2], r)]
                    };
                    let mut m = boundary_part(0, 2);
                    let mut tm = tag_model("a", &shape, &chain, 0, 91 + kind as u64);
                    for (i, d) in tm.char_ngram_model.iter_mut().enumerate() {
                        for w in d.weights.iter_mut() {
                            zero(&mut w.weights, pats[i]);
                        }
                    }
                    for (i, d) in tm.type_ngram_model.iter_mut().enumerate() {
                        for w in d.weights.iter_mut() {
                            zero(&mut w.weights, pats[i]);
                        }
                    }
                    m.tag_models.push(tm);
                    out.push((format!("T6 shape={shape:?} r={r} kind={kind} zero-patterns={pats:?}"), m));
                }
            }
        }
    }
    out
}

pub struct Case {
    pub spec: ModelSpec,
    pub desc: String,
}

pub fn families(tier: Tier) -> Vec<Case> {
    let mut out = vec![];
    let ws: Vec<u8> = tier.pick(vec![1, 2], vec![1, 2, 3]);
    let mut shapes: Vec<Vec<usize>> = vec![];
    for k in 0..=tier.pick(2, 3) {
        for v in gen::vectors(4, k) {
            shapes.push(v.iter().map(|&x| x as usize).collect());
        }
    }
    let big_shapes: Vec<Vec<usize>> = vec![vec![3, 3, 3], vec![5, 5], vec![2, 2, 2, 2], vec![4, 4, 1], vec![8], vec![9], vec![1, 7, 0, 2]];
    for &w in &ws {
        let pool = ngram_pool(w);
        // T1: all shape pairs on tokens {a, ab}, fixed n-grams (one shared between both tokens)
        let shapes_t1: Vec<&Vec<usize>> = if tier == Tier::Quick { shapes.iter().collect() } else { shapes.iter().filter(|s| s.len() <= 2).chain(shapes.iter().filter(|s| s.len() == 3).step_by(3)).collect() };
        for (i, s1) in shapes_t1.iter().enumerate() {
            for (j, s2) in shapes_t1.iter().enumerate() {
                let scheme = ((i + j) % 2) as u8;
                let mut m = boundary_part(0, w);
                m.tag_models.push(tag_model("a", s1, &[pool[0].clone(), pool[3].clone(), pool[8].clone()], scheme, 100 + i as u64));
                m.tag_models.push(tag_model("ab", s2, &[pool[3].clone(), pool[9].clone()], scheme, 200 + j as u64));
                out.push(Case { spec: m, desc: format!("T1 w={w} a:{s1:?} ab:{s2:?} scheme={scheme}") });
            }
        }
        // T2: n-gram subsets for token a (shape [2,3]) x <=1 n-gram for token あ (shape [2])
        let k = tier.pick(2, 3);
        for sub in gen::subsets_upto(pool.len(), k) {
            let ngs: Vec<TagNg> = sub.iter().map(|&i| pool[i].clone()).collect();
            for sub2 in gen::subsets_upto(pool.len(), 1).into_iter().step_by(tier.pick(3, 1)) {
                let ngs2: Vec<TagNg> = sub2.iter().map(|&i| pool[i].clone()).collect();
                let scheme = ((sub.len() + sub2.len()) % 2) as u8;
                let mut m = boundary_part(0, w);
                m.tag_models.push(tag_model("a", &[2, 3], &ngs, scheme, 300));
                m.tag_models.push(tag_model("あ", &[2], &ngs2, scheme, 400));
                out.push(Case { spec: m, desc: format!("T2 w={w} a:{ngs:?} あ:{ngs2:?} scheme={scheme}") });
            }
        }
        // T3: boundary-part variants (which scorers exist) x tag n-grams of each kind
        for kind in 0..4u8 {
            for sub in gen::subsets_upto(pool.len(), 2) {
                if sub.is_empty() {
                    continue;
                }
                let ngs: Vec<TagNg> = sub.iter().map(|&i| pool[i].clone()).collect();
                let mut m = boundary_part(kind, w);
                m.tag_models.push(tag_model("a", &[3], &ngs, 0, 500));
                m.tag_models.push(tag_model("ab", &[1, 2], &ngs[..1], 0, 600));
                out.push(Case { spec: m, desc: format!("T3 w={w} boundary-part={kind} a:{ngs:?}") });
            }
        }
        // T4: class counts around the fixed(8)/variable switch, three tokens
        for (i, s) in big_shapes.iter().enumerate() {
            for scheme in 0..2u8 {
                let mut m = boundary_part(0, w);
                m.tag_models.push(tag_model("a", s, &[pool[0].clone(), pool[1].clone(), pool[7].clone(), pool[10].clone()], scheme, 700 + i as u64));
                m.tag_models.push(tag_model("あ", &[2], &[pool[5].clone()], scheme, 800));
                m.tag_models.push(tag_model("ab", &big_shapes[(i + 1) % big_shapes.len()], &[pool[2].clone(), pool[3].clone()], scheme, 900));
                out.push(Case { spec: m, desc: format!("T4 w={w} a:{s:?} scheme={scheme}") });
            }
        }
    }
    out
}

fn build(spec: &ModelSpec, store: bool) -> Result<Predictor, String> {
    let model = spec.to_model().unwrap_or_else(|e| machinery_error(&e));
    match guard(|| Predictor::new(model, true)) {
        Err(p) => Err(format!("Predictor::new(_, true) panicked on a well-formed model: {p}")),
        Ok(Err(e)) => Err(format!("Predictor::new(_, true) rejected a well-formed model: {e}")),
        Ok(Ok(mut p)) => {
            if store {
                p.store_tag_scores(true);
            }
            Ok(p)
        }
    }
}

/// Unrelated tag-predicting predictors: whatever one of them leaves behind in a sentence (automaton
/// states per character, scores, tags) must not matter to the next predictor. Pattern ids are ranks
/// in the sorted pattern list, so predictor `k` has `k` filler patterns that sort first and then one
/// unigram per character / character type of the text alphabets: it leaves id k (k+1, ...) at every
/// position - small numbers that are valid pattern ids in the small case models as well.
pub fn other_predictor(k: usize) -> &'static Predictor {
    static OTHER: std::sync::OnceLock<Vec<Predictor>> = std::sync::OnceLock::new();
    &OTHER.get_or_init(|| {
        (0..4)
            .map(|k| {
                let mut m = ModelSpec { bias: 3, char_window_size: 2, type_window_size: 2, ..Default::default() };
                for f in 0..k {
                    // fillers: "!", "!!", ... and digit-type runs sort before every letter / letter type
                    m.char_ngram_model.push(nd("!".repeat(f + 1), vec![1; 4 - f]));
                    m.type_ngram_model.push(nd(vec![1u8; f + 1], vec![1; 4 - f]));
                }
                // rotate which unigram comes first after the fillers
                let chars = [['あ', 'b', 'a'], ['b', 'あ', 'a'], ['a', 'b', 'あ'], ['あ', 'a', 'b']][k];
                for (q, c) in chars.iter().enumerate().take(1 + k % 3) {
                    m.char_ngram_model.push(nd(c.to_string(), vec![q as i32 + 1, -2, 3, 1]));
                }
                for (q, t) in [[3u8, 2], [2, 3], [3, 2], [2, 3]][k].iter().enumerate().take(1 + k % 2) {
                    m.type_ngram_model.push(nd(vec![*t], vec![q as i32 + 1, -3, 5, 1]));
                }
                let ngs = vec![TagNg::Char("a".into(), 0), TagNg::Type(vec![2], 0), TagNg::Type(vec![3], 1), TagNg::Char("あ".into(), 1)];
                for tok in ["a", "b", "あ", "ab", "ba"] {
                    m.tag_models.push(tag_model(tok, &[3, 2, 2], &ngs, 0, 5000 + tok.len() as u64));
                }
                let mut p = Predictor::new(m.to_model().unwrap_or_else(|e| machinery_error(&e)), true).unwrap_or_else(|e| machinery_error(&e.to_string()));
                p.store_tag_scores(k % 2 == 0);
                p
            })
            .collect()
    })[k % 4]
}

/// forced: None = boundaries as predicted; Some(v) = written through boundaries_mut after predict.
/// pre: 0 = tags empty before fill_tags; 1 = fill_tags already ran once on the predicted boundaries
/// (then a filter changes them and tags are filled again); 2 = the sentence carries unrelated
/// tags (3 per character) before prediction, as after from_tokenized / an earlier predictor;
/// 3..=6 = the sentence was predicted and tagged by an unrelated predictor (`other_predictor(pre - 3)`) first.
pub fn check_case(spec: &ModelSpec, pred: &Predictor, store: bool, text: &[char], forced: Option<&[u8]>, pre: u8) -> (bool, Option<(String, String)>) {
    let t: String = text.iter().collect();
    let r = guard(|| {
        let mut s = Sentence::from_raw(t.clone()).expect("from_raw");
        if pre == 2 {
            s.reset_tags(3);
            for (k, slot) in s.tags_mut().iter_mut().enumerate() {
                *slot = Some(format!("STALE{k}").into());
            }
        }
        if pre >= 3 {
            other_predictor(pre as usize - 3).predict(&mut s);
            s.fill_tags();
        }
        pred.predict(&mut s);
        if pre == 1 {
            s.fill_tags();
        }
        if let Some(f) = forced {
            for (b, &l) in s.boundaries_mut().iter_mut().zip(f) {
                *b = label(l);
            }
        }
        let labels: Vec<u8> = s.boundaries().iter().map(|&b| b as u8).collect();
        s.fill_tags();
        let tags: Vec<Option<String>> = s.tags().iter().map(|x| x.as_ref().map(|x| x.to_string())).collect();
        (labels, s.n_tags(), tags, tokens_of(&s), if store { Some(cands_of(&s)) } else { None })
    });
    let (labels, n_tags, tags, toks, cands) = match r {
        Err(p) => return (true, Some(("panic".into(), format!("predict/fill_tags panicked: {p}")))),
        Ok(x) => x,
    };
    let want = ref_tags(spec, text, &labels);
    let Some(want) = want else {
        // no tag category in the model: tag filling must leave the (empty) tags alone
        if pre < 2 && (n_tags != 0 || !tags.is_empty()) {
            return (false, Some(("no-categories".into(), format!("model defines no tag category but n_tags={n_tags} tags={tags:?}"))));
        }
        // with score storing on, the candidate accessor works and reports no candidates for any token
        if let (Some(c), Ok(tk)) = (&cands, &toks) {
            let want: Result<Vec<Vec<Vec<(String, i32)>>>, String> = Ok(vec![vec![]; tk.len()]);
            if pre < 2 && *c != want {
                return (false, Some(("no-categories-cands".into(), format!("model defines no tag category and scores are stored, but tag_candidates gives {c:?}"))));
            }
        }
        return (false, None);
    };
    let nontrivial = want.tags.iter().any(|t| t.is_some());
    if n_tags != want.n_tags {
        return (nontrivial, Some(("n_tags".into(), format!("n_tags {n_tags} != reference {}", want.n_tags))));
    }
    if tags != want.tags {
        return (nontrivial, Some(("tags".into(), format!("labels {labels:?}: tags {tags:?} != reference {:?} (reference candidates {:?})", want.tags, want.cands))));
    }
    match toks {
        Err(p) => return (nontrivial, Some(("token-panic".into(), format!("iter_tokens/Token::tags panicked: {p}")))),
        Ok(toks) => {
            for (_, e, _, tt) in &toks {
                if tt[..] != want.tags[(e - 1) * n_tags..e * n_tags] {
                    return (nontrivial, Some(("token-tags".into(), format!("Token::tags() {tt:?} != reference slice"))));
                }
            }
        }
    }
    if let Some(c) = cands {
        match c {
            Err(p) => return (nontrivial, Some(("cands-panic".into(), format!("Token::tag_candidates panicked with score storing on: {p}")))),
            Ok(c) => {
                let rt = ref_tokens(&labels);
                let want_c: Vec<Vec<Vec<(String, i64)>>> = rt.iter().map(|&(_, e)| want.cands[e - 1].clone().unwrap_or_default()).collect();
                let got_c: Vec<Vec<Vec<(String, i64)>>> = c.into_iter().map(|t| t.into_iter().map(|cat| cat.into_iter().map(|(s, x)| (s, x as i64)).collect()).collect()).collect();
                if got_c != want_c {
                    return (nontrivial, Some(("cands".into(), format!("labels {labels:?}: tag_candidates {got_c:?} != reference {want_c:?}"))));
                }
            }
        }
    }
    (nontrivial, None)
}

fn lab(l: Option<&[u8]>) -> String {
    l.map_or("predicted".to_string(), |v| v.iter().map(|&l| ['N', 'W', 'U'][l as usize]).collect())
}

pub fn replay(c: &Value) -> Option<(String, String)> {
    let spec: ModelSpec = serde_json::from_value(c["spec"].clone()).ok()?;
    let store = c["store"].as_bool()?;
    let desc = c["desc"].as_str()?;
    let pred = match build(&spec, store) {
        Ok(p) => p,
        Err(e) => return Some((format!("new {desc}"), e)),
    };
    let text: Vec<char> = c["text"].as_str()?.chars().collect();
    let forced: Option<Vec<u8>> = serde_json::from_value(c["forced"].clone()).ok()?;
    let pre = c["pre"].as_u64().unwrap_or(0) as u8;
    if let Some(l) = c["label"].as_str() {
        return check_case(&spec, &pred, store, &text, forced.as_deref(), pre).1.map(|(k, w)| (format!("{k} {desc} store={} {l} pre={pre}", store as u8), w.chars().take(600).collect()));
    }
    check_case(&spec, &pred, store, &text, forced.as_deref(), pre).1.map(|(k, w)| (format!("{k} {desc} store={} text={} labels={} pre={pre}", store as u8, gen::s(&text), lab(forced.as_deref())), w))
}

pub fn run(tier: Tier) -> ! {
    let chk = Check::new("C06", tier, "exploration");
    quiet_panics();
    let sigma = ['a', 'b', 'あ'];
    let l = tier.pick(4, 5);
    let texts = gen::strings(&sigma, 1, l);
    let mut cases = families(tier);
    cases.extend(zero_tag_family().into_iter().map(|(desc, spec)| Case { spec, desc: format!("T5 {desc}") }));
    cases.extend(extreme_tag_family().into_iter().map(|(desc, spec)| Case { spec, desc }));
    cases.extend(nested_tag_family().into_iter().step_by(tier.pick(3, 1)).map(|(desc, spec)| Case { spec, desc }));
    cases.extend(scale_tag_family(tier.pick(5000, 70000)).into_iter().map(|(desc, spec)| Case { spec, desc }));
    chk.set("models", json!(cases.len()));
    chk.set("texts", json!(texts.len()));
    chk.set("max_text_len", json!(l));
    cases.par_iter().enumerate().for_each(|(ci, c)| {
        for store in [false, true] {
            let pred = match build(&c.spec, store) {
                Ok(p) => p,
                Err(e) => {
                    chk.eval(1);
                    chk.violation(format!("new {}", c.desc), e, json!({"desc": c.desc, "spec": c.spec, "store": store, "text": "a", "forced": null}));
                    break;
                }
            };
            for text in &texts {
                let mut todo: Vec<Option<Vec<u8>>> = vec![None];
                // forced label vectors (what filters do); all of them for short texts, and for
                // the storing predictor only every other model to keep the quick tier quick
                if text.len() <= tier.pick(4, 4) && (store || ci % 2 == 0) {
                    for v in gen::vectors(3, text.len() - 1) {
                        todo.push(Some(v));
                    }
                }
                for (fi, forced) in todo.into_iter().enumerate() {
                    // every case with empty tags; a rotating third also with tags already present
                    let pres: &[u8] = match (fi + text.len() + ci) % 3 {
                        0 => &[0, 1],
                        1 => &[0, 2],
                        _ => [&[0u8, 3][..], &[0, 4], &[0, 5], &[0, 6]][(fi / 3 + ci + text.len() / 2) % 4],
                    };
                    for &pre in pres {
                        let (nt, v) = check_case(&c.spec, &pred, store, text, forced.as_deref(), pre);
                        chk.eval(1);
                        if nt {
                            chk.nontrivial(1);
                        }
                        if let Some((k, what)) = v {
                            let t = gen::s(text);
                            chk.violation(
                                format!("{k} {} store={} text={t} labels={} pre={pre}", c.desc, store as u8, lab(forced.as_deref())),
                                what,
                                json!({"desc": c.desc, "spec": c.spec, "store": store, "text": t, "forced": forced, "pre": pre}),
                            );
                        }
                    }
                }
            }
        }
        if chk.want_sample() {
            chk.sample(json!({"model": c.desc, "tag_models": c.spec.tag_models}));
        }
    });
    // threshold lengths: texts around 255/256 and 1 KiB characters (thorough also 4 KiB and u16) with predicted
    // boundaries and with periodic forced labels: one token as long as the text, as many tokens as characters,
    // and periods 2 and 3 - every n-th model, both storing modes, pre-states rotating
    {
        let lens: Vec<usize> = tier.pick(vec![255usize, 256, 257, 1025], vec![255, 256, 257, 1025, 4097, 65535, 65537]);
        chk.set("threshold_text_lengths", json!(lens));
        let pats: [&[u8]; 5] = [&[0], &[1], &[0, 1], &[1, 0, 0], &[0, 2, 1]];
        let sub: Vec<(usize, &Case)> = cases.iter().enumerate().step_by(tier.pick(23, 5)).collect();
        chk.set("threshold_models", json!(sub.len()));
        sub.par_iter().for_each(|(ci, c)| {
            for store in [false, true] {
                let Ok(pred) = build(&c.spec, store) else { continue };
                for (li, &len) in lens.iter().enumerate() {
                    // the u16-sized texts on every 9th model of the sub-sample only (cost)
                    if len > 60_000 && (ci / tier.pick(23, 5)) % 9 != 0 {
                        continue;
                    }
                    for kind in 0..2 {
                        let text: Vec<char> = (0..len).map(|i| if kind == 0 { sigma[(i + i / 5) % 3] } else { sigma[(i / 7) % 2] }).collect();
                        let mut todo: Vec<Option<Vec<u8>>> = vec![None];
                        for p in pats {
                            todo.push(Some((0..len - 1).map(|i| p[i % p.len()]).collect()));
                        }
                        for (fi, forced) in todo.into_iter().enumerate() {
                            let pre = [0u8, 1, 2, 4][(fi + li + ci) % 4];
                            let (nt, v) = check_case(&c.spec, &pred, store, &text, forced.as_deref(), pre);
                            chk.eval(1);
                            if nt {
                                chk.nontrivial(1);
                            }
                            if let Some((k, what)) = v {
                                let t = gen::s(&text);
                                let what: String = what.chars().take(600).collect();
                                chk.violation(
                                    format!("{k} {} store={} text=len{len}kind{kind} labels=pattern{fi} pre={pre}", c.desc, store as u8),
                                    what,
                                    json!({"desc": c.desc, "spec": c.spec, "store": store, "text": t, "forced": forced, "pre": pre, "label": format!("text=len{len}kind{kind} labels=pattern{fi}")}),
                                );
                            }
                        }
                    }
                }
            }
        });
    }
    chk.assume("reference: candidate score = bias + weights of every tag n-gram whose occurrence ends rel_position characters after the token's last character; first maximum wins");
    chk.assume("boundaries at fill time are read back from the sentence (their correctness is C01)");
    chk.finish(
        "tag-model families T1 (all category-shape pairs), T2 (all tag n-gram subsets incl. same n-gram at two offsets and shared between tokens), T3 (which scorers exist), T4 (8/9/10 classes) T5 (zero-pattern bias/weight vectors), T6 (nested tag n-grams at one offset with independent zero patterns) x windows x all texts over {a,b,あ} x predicted boundaries and every forced {N,W,U} vector x score storing on/off x tag buffer empty / already filled once / holding unrelated tags / sentence predicted and tagged by an unrelated predictor first (rotating thirds); non-trivial = some token receives a tag; distinct by construction",
        true,
        &replay,
    )
}
