//! C09 — a trained model computes exactly the function the learner produced. Engine E5.

use crate::gen;
use crate::mirror::ModelSpec;
use crate::report::*;
use crate::train::*;
use rayon::prelude::*;
use serde_json::{json, Value};
use std::collections::HashMap;
use vaporetto::{Predictor, Sentence, VerifFeature};

/// Returns (trained?, violation)
pub fn check_case(cfg: &Config, corpus: &Corpus, texts: &[Vec<char>]) -> (bool, Option<(String, String)>) {
    let (model, spec, trace): (vaporetto::Model, ModelSpec, vaporetto::VerifTrainTrace) = match train_once(cfg, corpus) {
        // totality is C11's business; here only a trained model can be judged
        Err(_) | Ok(Trained::Err(_)) => return (false, None),
        Ok(Trained::Ok(b)) => *b,
    };
    // structural clause: every stored n-gram vector covers exactly the positions of its own window
    for d in &spec.char_ngram_model {
        let want = 2 * cfg.charw as usize + 1 - d.ngram.chars().count().min(2 * cfg.charw as usize + 1);
        if d.weights.len() != want {
            return (true, Some(("layout-char".into(), format!("character n-gram {:?} has {} weights, its window ({}) covers {want}", d.ngram, d.weights.len(), cfg.charw))));
        }
    }
    for d in &spec.type_ngram_model {
        let want = 2 * cfg.typew as usize + 1 - d.ngram.len().min(2 * cfg.typew as usize + 1);
        if d.weights.len() != want {
            return (true, Some(("layout-type".into(), format!("type n-gram {:?} has {} weights, its window ({}) covers {want}", d.ngram, d.weights.len(), cfg.typew))));
        }
    }
    if spec.char_window_size != cfg.charw || spec.type_window_size != cfg.typew || spec.bias != trace.bias {
        return (true, Some(("header".into(), format!("model windows/bias ({}, {}, {}) differ from configuration/learner ({}, {}, {})", spec.char_window_size, spec.type_window_size, spec.bias, cfg.charw, cfg.typew, trace.bias))));
    }
    // the trainer's quantised classifier is exactly what the learner's raw output dictates
    if let Some(v) = check_trace_against_learner(&trace) {
        return (true, Some(v));
    }
    let weights: HashMap<&VerifFeature, i32> = trace.weights.iter().map(|(f, w)| (f, *w)).collect();
    let pred = match guard(|| Predictor::new(model, false)) {
        Err(p) => return (true, Some(("predictor-panic".into(), format!("Predictor::new panicked on the trained model: {p}")))),
        Ok(Err(e)) => return (true, Some(("predictor-err".into(), format!("Predictor::new rejected the trained model: {e}")))),
        Ok(Ok(p)) => p,
    };
    for t in texts {
        if t.len() < 2 {
            continue;
        }
        let ts = gen::s(t);
        let got = match guard(|| {
            let mut s = Sentence::from_raw(ts.clone()).unwrap();
            pred.predict(&mut s);
            s.boundary_scores().to_vec()
        }) {
            Err(p) => return (true, Some(("predict-panic".into(), format!("predict panicked on {ts:?}: {p}")))),
            Ok(g) => g,
        };
        for i in 0..t.len() - 1 {
            let mut want = trace.bias as i64;
            let mut parts = vec![];
            for (f, c) in ref_features(cfg, t, i) {
                if let Some(&w) = weights.get(&f) {
                    want += w as i64 * c as i64;
                    if w != 0 {
                        parts.push((f, c, w));
                    }
                }
            }
            if got[i] as i64 != want {
                // which kind of feature is involved? (coarse class for the signature)
                let kinds: Vec<&str> = parts
                    .iter()
                    .map(|(f, _, _)| match f {
                        VerifFeature::CharNgram { .. } => "char",
                        VerifFeature::TypeNgram { .. } => "type",
                        VerifFeature::DictWord { .. } => "dict",
                    })
                    .collect();
                let k = if kinds.contains(&"dict") { "score-dict" } else if kinds.contains(&"type") { "score-type" } else { "score-char" };
                return (
                    true,
                    Some((k.into(), format!("text {ts:?} boundary {i}: model scores {}, learned function gives {want} = bias {} + {parts:?}", got[i], trace.bias))),
                );
            }
        }
    }
    (true, None)
}

fn sig(k: &str, cfg: &Config, corpus: &Corpus) -> String {
    format!("{k} {} corpus={}", cfg.short(), corpus.name)
}

/// Every text of 2..4 characters over {a,b,あ,1}, plus texts LONGER than the large windows (11..40 characters;
/// rotations and a fixed scrambled sequence), so that long weight vectors are applied in the middle of a sentence
/// and not only hanging over its start.
pub fn eval_texts() -> Vec<Vec<char>> {
    let mut texts = gen::strings(&['a', 'b', 'あ', '1'], 2, 4);
    for len in [11usize, 20, 27, 40] {
        for r in 0..3usize {
            texts.push((0..len).map(|i| ['a', 'b', 'あ', '1'][if r == 2 { (gen::mix(i as u64) % 4) as usize } else { (i * (r + 1) + i / 3) % 4 }]).collect());
        }
    }
    texts
}

pub fn replay(c: &Value) -> Option<(String, String)> {
    mute_stdout();
    let cfg: Config = serde_json::from_value(c["cfg"].clone()).ok()?;
    let corpus: Corpus = serde_json::from_value(c["corpus"].clone()).ok()?;
    let texts = eval_texts();
    // training is randomised (liblinear's rand(), hash-map order): a systematic defect shows up
    // again within a few attempts
    let stored = c["kind"].as_str().unwrap_or("").to_string();
    (0..8).find_map(|_| check_case(&cfg, &corpus, &texts).1).map(|(k, w)| {
        // which feature kinds carry non-zero weights varies between (randomised) trainings: any
        // score mismatch reproduces a score mismatch
        let k = if k.starts_with("score-") && stored.starts_with("score-") { stored.clone() } else { k };
        (sig(&k, &cfg, &corpus), w)
    })
}

pub fn configs(tier: Tier) -> Vec<Config> {
    let mut out = vec![];
    let sizes: Vec<u8> = tier.pick(vec![0, 1, 2, 3], vec![0, 1, 2, 3, 4]);
    let dicts: Vec<(Vec<String>, Vec<u8>)> = vec![(vec![], vec![1]), (vec!["ab".into()], vec![1, 2, 4]), (vec!["a".into(), "ab".into(), "abc".into(), "あ".into()], vec![1, 2, 4]), (vec!["b".into(), "ab".into(), "aab".into(), "あb".into()], vec![1, 2]), (vec!["あ".into(), "ああ".into()], vec![1])];
    let solvers: Vec<u8> = tier.pick(vec![1, 5], vec![0, 1, 2, 3, 4, 5, 6, 7]);
    for &cw in &sizes {
        for &cn in &sizes {
            for &tw in &sizes {
                for &tn in &sizes {
                    for (di, (d, buckets)) in dicts.iter().enumerate() {
                        for &b in buckets {
                            for &sv in &solvers {
                                // thorough: all eight solvers on the diagonal-ish sub-grid, two elsewhere
                                if tier == Tier::Thorough && ![1, 5].contains(&sv) && (cw + cn + tw + tn + di as u8) % 4 != 0 {
                                    continue;
                                }
                                out.push(Config { charw: cw, charn: cn, typew: tw, typen: tn, dict: d.clone(), bucket: b, solver: sv });
                            }
                        }
                    }
                }
            }
        }
    }
    // n-gram sizes up to 2*window (the longest n-gram that fits the window; the grid above stops at 3/4)
    for (cw, cn, tw, tn) in [(2u8, 4u8, 1u8, 2u8), (3, 6, 2, 4), (1, 2, 3, 6), (2, 5, 2, 5)] {
        for &sv in &[1u8, 5] {
            out.push(Config { charw: cw, charn: cn, typew: tw, typen: tn, dict: vec![], bucket: 1, solver: sv });
        }
    }
    // a few large windows (variable-length weight vectors, n-grams hanging over the sentence start)
    for (cw, cn, tw, tn) in [(9u8, 2u8, 8u8, 1u8), (8, 1, 12, 2), (12, 3, 9, 3), (5, 2, 6, 2), (6, 1, 5, 3), (7, 2, 4, 1)] {
        for &sv in &[1u8, 5] {
            out.push(Config { charw: cw, charn: cn, typew: tw, typen: tn, dict: vec!["ab".into()], bucket: 2, solver: sv });
        }
    }
    out
}

pub fn run(tier: Tier) -> ! {
    let chk = Check::new("C09", tier, "exploration");
    quiet_panics();
    mute_stdout();
    chk.randomised.store(true, std::sync::atomic::Ordering::Relaxed);
    let cfgs = configs(tier);
    let corpora = corpora_boundary(tier.pick(4, 12));
    let texts = eval_texts();
    chk.set("configurations", json!(cfgs.len()));
    chk.set("corpora", json!(corpora.iter().map(|c| c.name.clone()).collect::<Vec<_>>()));
    chk.set("evaluation_texts", json!(texts.len()));
    let trained = std::sync::atomic::AtomicU64::new(0);
    cfgs.par_iter().enumerate().for_each(|(ci, cfg)| {
        for (k, corpus) in corpora.iter().enumerate() {
            // quick: every configuration with 2 of the corpora (rotating); thorough: all
            if tier == Tier::Quick && (k + ci) % 2 != 0 {
                continue;
            }
            chk.eval(1);
            let (t, v) = check_case(cfg, corpus, &texts);
            if t {
                trained.fetch_add(1, std::sync::atomic::Ordering::Relaxed);
                chk.nontrivial(1);
            }
            if let Some((k, what)) = v {
                chk.violation(sig(&k, cfg, corpus), what, json!({"cfg": cfg, "corpus": corpus, "kind": k}));
            }
        }
    });
    chk.set("trainings_that_returned_a_model", json!(trained.into_inner()));
    chk.sample(json!({"cfg": "cw=2 cn=3 tw=3 tn=1 dict=[ab] bucket=2 solver=5", "corpus": "tok-basic", "oracle": "score(boundary) = recorded quantised bias + sum of recorded quantised weights of ref_features"}));
    chk.assume("the oracle uses the quantised coefficients recorded by the verif-hooks trace of THIS run, so liblinear numerics and hash-map order cannot cause an alarm");
    chk.assume("configurations on which training fails or panics are skipped here (C11 judges totality)");
    chk.finish(
        "grid of (char window, char n, type window, type n) x dictionary/bucket variants x solvers x corpora (tokenized, partially annotated, mixed): real training, then every boundary of every text of 2..4 characters over {a,b,あ,1} is scored by the trained model and compared with the learner's recorded function; plus the weight-vector layout clause; non-trivial = a model was trained; evaluations count (configuration, corpus) pairs",
        true,
        &replay,
    )
}
