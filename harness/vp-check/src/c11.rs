//! C11 — training is total and its output is always usable. Engine E5.

use crate::gen;
use crate::report::*;
use crate::train::*;
use rayon::prelude::*;
use serde_json::{json, Value};
use vaporetto::{Model, Predictor, Sentence};

pub fn corpora(tier: Tier) -> Vec<Corpus> {
    let l = |p: bool, s: &str| (p, s.to_string());
    let mut v = vec![
        Corpus { name: "empty".into(), lines: vec![], tag_dict: vec![] },
        Corpus { name: "single-char-sentence".into(), lines: vec![l(false, "a")], tag_dict: vec![] },
        Corpus { name: "no-word-boundary".into(), lines: vec![l(false, "ab"), l(false, "abc")], tag_dict: vec![] },
        Corpus { name: "only-word-boundaries".into(), lines: vec![l(false, "a b"), l(false, "a b c")], tag_dict: vec![] },
        Corpus { name: "untagged".into(), lines: vec![l(false, "a b"), l(false, "ab a"), l(false, "あ a1")], tag_dict: vec![] },
        Corpus { name: "tagged-1cat".into(), lines: vec![l(false, "a/X b/Y"), l(false, "a/Z ab/Y a/X"), l(false, "b/Y a/X")], tag_dict: vec![] },
        Corpus { name: "tagged-3cat-partial".into(), lines: vec![l(false, "a/X/p/1 b/Y"), l(false, "a/Z//2 ab a/X/q"), l(false, "b//r a/X/p/1")], tag_dict: vec![] },
        Corpus { name: "partial-annotation".into(), lines: vec![l(true, "a|b-a"), l(true, "a b|a-a"), l(true, "あ-あ|a b")], tag_dict: vec![] },
        Corpus { name: "partial-tagged".into(), lines: vec![l(true, "a/X|b-a/Y"), l(true, "a b/Q|a/Z"), l(true, "a/Y|a/X")], tag_dict: vec![] },
        Corpus { name: "all-unknown".into(), lines: vec![l(true, "a b a"), l(true, "a b")], tag_dict: vec![] },
        Corpus { name: "tag-dict-only".into(), lines: vec![l(false, "a b"), l(false, "ab a")], tag_dict: vec!["c/D/E".into(), "あ/F".into()] },
        Corpus { name: "tag-dict-and-corpus".into(), lines: vec![l(false, "a/X b"), l(false, "a/Y ab/Z")], tag_dict: vec!["a/D".into(), "q/F/G".into()] },
        // sentences longer than the large windows, with characters that occur only sentence-finally / -initially
        Corpus { name: "long-final-only".into(), lines: vec![l(false, "あb a b ab a ba b ab a b1"), l(false, "あ ab ab a b a ab b a/X ab1"), l(false, "a/Y 1")], tag_dict: vec![] },
    ];
    if tier == Tier::Thorough {
        v.push(Corpus { name: "long-tagged".into(), lines: vec![l(false, "abc/T ab/S/u c/T"), l(false, "c/V abc/T a ab/S/w"), l(true, "a-b-c/T|a b")], tag_dict: vec!["abc/T".into()] });
        v.push(Corpus { name: "multibyte-tagged".into(), lines: vec![l(false, "𠀋/K あ/H 𠀋あ/M"), l(false, "あ/H2 𠀋/K")], tag_dict: vec![] });
    }
    v
}

pub fn check_case(cfg: &Config, corpus: &Corpus, texts: &[String]) -> (bool, Option<(String, String)>) {
    let (model, spec) = match train_once(cfg, corpus) {
        Err(p) => return (false, Some(("train-panic".into(), format!("training panicked: {p}")))),
        Ok(Trained::Err(_)) => return (false, None), // an error is an allowed outcome
        Ok(Trained::Ok(b)) => (b.0, b.1),
    };
    // weights within the signed 16-bit range
    let in16 = |w: &i32| (-32768..=32767).contains(w);
    let mut all: Vec<i32> = vec![spec.bias];
    all.extend(spec.char_ngram_model.iter().flat_map(|d| d.weights.iter().copied()));
    all.extend(spec.type_ngram_model.iter().flat_map(|d| d.weights.iter().copied()));
    all.extend(spec.dict_model.iter().flat_map(|d| d.weights.iter().copied()));
    for t in &spec.tag_models {
        all.extend(t.bias.iter().copied());
        all.extend(t.char_ngram_model.iter().flat_map(|d| d.weights.iter().flat_map(|w| w.weights.iter().copied())));
        all.extend(t.type_ngram_model.iter().flat_map(|d| d.weights.iter().flat_map(|w| w.weights.iter().copied())));
    }
    if let Some(w) = all.iter().find(|w| !in16(w)) {
        return (true, Some(("weight-range".into(), format!("trained model contains weight {w} outside the signed 16-bit range"))));
    }
    // serialise and re-read
    let bytes = match guard(|| {
        let mut b = vec![];
        model.write(&mut b).map(|_| b)
    }) {
        Err(p) => return (true, Some(("write-panic".into(), p))),
        Ok(Err(e)) => return (true, Some(("write-err".into(), format!("Model::write failed on a trained model: {e}")))),
        Ok(Ok(b)) => b,
    };
    match guard(|| Model::read(&bytes[..]).map(|m| m.to_vec().ok())) {
        Err(p) => return (true, Some(("read-panic".into(), p))),
        Ok(Err(e)) => return (true, Some(("read-err".into(), format!("the trained model cannot be re-read: {e}")))),
        Ok(Ok(b2)) => {
            if b2.as_deref() != Some(&bytes[..]) {
                return (true, Some(("reread-differs".into(), "the re-read model serialises differently".into())));
            }
        }
    }
    // accepted by the predictor with and without tag prediction; predicts and tags any text
    for pt in [false, true] {
        let m = Model::read(&bytes[..]).unwrap();
        let pred = match guard(|| Predictor::new(m, pt)) {
            Err(p) => return (true, Some((format!("predictor-new-panic pt={}", pt as u8), format!("Predictor::new(trained, {pt}) panicked: {p}")))),
            Ok(Err(e)) => return (true, Some((format!("predictor-new-err pt={}", pt as u8), format!("Predictor::new(trained, {pt}) rejected the model: {e}")))),
            Ok(Ok(mut p)) => {
                if pt {
                    p.store_tag_scores(true);
                }
                p
            }
        };
        for t in texts {
            let r = guard(|| {
                let mut s = Sentence::from_raw(t.clone()).unwrap();
                pred.predict(&mut s);
                if pt {
                    s.fill_tags();
                }
                crate::obs::observe(&s, false)
            });
            match r {
                Err(p) => return (true, Some((format!("predict-panic pt={}", pt as u8), format!("predict/fill_tags panicked on {t:?}: {p}")))),
                Ok(o) => {
                    if o.tokens.is_err() || o.tokenized.is_err() || o.partial.is_err() {
                        return (true, Some((format!("observe-panic pt={}", pt as u8), format!("accessors panicked on {t:?} after prediction with the trained model: {o:?}"))));
                    }
                }
            }
        }
    }
    (true, None)
}

fn sig(k: &str, cfg: &Config, corpus: &Corpus) -> String {
    format!("{k} {} corpus={}", cfg.short(), corpus.name)
}

pub fn replay(c: &Value) -> Option<(String, String)> {
    mute_stdout();
    let cfg: Config = serde_json::from_value(c["cfg"].clone()).ok()?;
    let corpus: Corpus = serde_json::from_value(c["corpus"].clone()).ok()?;
    let texts: Vec<String> = gen::strings(&['a', 'b', 'あ', '1'], 1, 3).iter().map(|t| gen::s(t)).collect();
    // training is randomised: look (up to 8 trainings) for the recorded kind of violation first
    let stored = c["kind"].as_str().unwrap_or("").to_string();
    let mut last = None;
    for _ in 0..8 {
        if let Some((k, w)) = check_case(&cfg, &corpus, &texts).1 {
            if k == stored {
                return Some((sig(&k, &cfg, &corpus), w));
            }
            last = Some((sig(&k, &cfg, &corpus), w));
        }
    }
    last
}

pub fn configs(tier: Tier) -> Vec<Config> {
    let mut out = vec![];
    let sizes: Vec<u8> = tier.pick(vec![0, 1, 2, 3], vec![0, 1, 2, 3, 5]);
    let solvers: Vec<u8> = tier.pick(vec![1, 5, 0], vec![0, 1, 2, 3, 4, 5, 6, 7]);
    let dicts: Vec<(Vec<String>, Vec<u8>)> = vec![(vec![], vec![1]), (vec!["a".into(), "ab".into(), "abc".into(), "あ".into()], tier.pick(vec![1, 2], vec![1, 2, 4, 255]))];
    let mut i = 0usize;
    for &cw in &sizes {
        for &cn in &sizes {
            for &tw in &sizes {
                for &tn in &sizes {
                    for (d, buckets) in &dicts {
                        for &b in buckets {
                            i += 1;
                            // every size combination with a rotating solver; all solvers on a sub-grid
                            for (k, &sv) in solvers.iter().enumerate() {
                                if k == i % solvers.len() || (cw + cn + tw + tn) % 5 == 0 {
                                    out.push(Config { charw: cw, charn: cn, typew: tw, typen: tn, dict: d.clone(), bucket: b, solver: sv });
                                }
                            }
                        }
                    }
                }
            }
        }
    }
    // one axis at a time: sizes around the predictor's fixed-length weight representation (8 slots) in both
    // tiers, the u8 extremes in thorough; and both windows large together
    for big in tier.pick(vec![7u8, 8, 9], vec![7u8, 8, 9, 16, 128, 255]) {
        for axis in 0..4 {
            let mut v = [2u8, 2, 2, 2];
            v[axis] = big;
            out.push(Config { charw: v[0], charn: v[1], typew: v[2], typen: v[3], dict: vec!["ab".into()], bucket: 2, solver: 1 });
        }
        out.push(Config { charw: big, charn: 1, typew: big, typen: 1, dict: vec![], bucket: 1, solver: 5 });
        out.push(Config { charw: big, charn: 3, typew: big, typen: 3, dict: vec![], bucket: 1, solver: 1 });
    }
    out
}

pub fn run(tier: Tier) -> ! {
    let chk = Check::new("C11", tier, "exploration");
    quiet_panics();
    mute_stdout();
    chk.randomised.store(true, std::sync::atomic::Ordering::Relaxed);
    let cfgs = configs(tier);
    let cps = corpora(tier);
    let texts: Vec<String> = gen::strings(&['a', 'b', 'あ', '1'], 1, 3).iter().map(|t| gen::s(t)).collect();
    chk.set("configurations", json!(cfgs.len()));
    chk.set("corpora", json!(cps.iter().map(|c| c.name.clone()).collect::<Vec<_>>()));
    let models = std::sync::atomic::AtomicU64::new(0);
    cfgs.par_iter().for_each(|cfg| {
        for corpus in &cps {
            chk.eval(1);
            let (t, v) = check_case(cfg, corpus, &texts);
            if t {
                models.fetch_add(1, std::sync::atomic::Ordering::Relaxed);
                chk.nontrivial(1);
            }
            if let Some((k, what)) = v {
                chk.violation(sig(&k, cfg, corpus), what, json!({"cfg": cfg, "corpus": corpus, "kind": k}));
            }
        }
    });
    // systematic tag matrices (every absent/X/Y assignment of every slot of every occurrence)
    let mut matrices = tag_matrix_corpora(2, 2, 1);
    matrices.extend(tag_matrix_corpora(3, 2, tier.pick(7, 1)));
    matrices.extend(tag_matrix_corpora(2, 3, tier.pick(7, 1)));
    let small: Vec<Config> = vec![
        Config { charw: 2, charn: 2, typew: 2, typen: 2, dict: vec![], bucket: 1, solver: 1 },
        Config { charw: 1, charn: 2, typew: 1, typen: 1, dict: vec![], bucket: 1, solver: 5 },
        Config { charw: 2, charn: 1, typew: 0, typen: 0, dict: vec!["a".into()], bucket: 1, solver: 0 },
    ];
    chk.set("tag_matrix_corpora", json!(matrices.len()));
    matrices.par_iter().enumerate().for_each(|(i, corpus)| {
        for (k, cfg) in small.iter().enumerate() {
            if tier == Tier::Quick && (i + k) % 3 != 0 {
                continue;
            }
            chk.eval(1);
            let (t, v) = check_case(cfg, corpus, &texts);
            if t {
                models.fetch_add(1, std::sync::atomic::Ordering::Relaxed);
                chk.nontrivial(1);
            }
            if let Some((k, what)) = v {
                chk.violation(sig(&k, cfg, corpus), what, json!({"cfg": cfg, "corpus": corpus, "kind": k}));
            }
        }
    });
    // very long dictionary words (around the u8 limit of the length bucket)
    {
        let mut jobs = vec![];
        for &len in &[255usize, 256, 257, 300] {
            for &bucket in &[1u8, 4, 255] {
                let w = "a".repeat(len);
                let cfg = Config { charw: 1, charn: 1, typew: 1, typen: 1, dict: vec![w.clone(), "b".into()], bucket, solver: 1 };
                let corpus = Corpus { name: format!("long-word-{len}"), lines: vec![(false, format!("b {w} b")), (false, "ab b a".to_string())], tag_dict: vec![] };
                jobs.push((cfg, corpus));
            }
        }
        jobs.par_iter().for_each(|(cfg, corpus)| {
            chk.eval(1);
            let (t, v) = check_case(cfg, corpus, &texts);
            if t {
                models.fetch_add(1, std::sync::atomic::Ordering::Relaxed);
                chk.nontrivial(1);
            }
            if let Some((k, what)) = v {
                let mut c2 = cfg.clone();
                c2.dict = vec![format!("a^{}", cfg.dict[0].chars().count()), "b".into()];
                chk.violation(sig(&k, &c2, corpus), what, json!({"cfg": cfg, "corpus": corpus, "kind": k, "noreplay": true}));
            }
        });
    }
    chk.set("trainings_that_returned_a_model", json!(models.into_inner()));
    chk.sample(json!({"cfg": "cw=1 cn=3 tw=0 tn=2 dict=[a,ab,abc,あ] bucket=2 solver=5", "corpus": "tagged-3cat-partial"}));
    chk.sample(json!({"cfg": "cw=2 cn=2 tw=2 tn=2 solver=1", "corpus": "no-word-boundary", "allowed": "Err, never a panic"}));
    chk.assume("a crash of liblinear (C++) kills the engine process; the driver reports that as a violation with the crash log");
    chk.finish(
        "window / n-gram sizes incl. 0, n > window and differing windows x dictionaries and buckets x solvers x corpora (empty, single sentence, single class, untagged, tagged with 1-3 categories and absent tags, partially annotated, all-unknown, tag-dictionary-only tokens) plus all tag matrices (2 slots x 2 occurrences: all 81; 3x2 and 2x3: all 729 each in thorough, every 7th in quick) under three configurations: Trainer::new/add_example/train must return Ok or Err; a returned model must serialise, re-read identically, be accepted by Predictor::new with and without tag prediction, predict and tag every text up to 3 characters without panicking, and hold only 16-bit weights; non-trivial = a model was returned; evaluations count (configuration, corpus) pairs",
        true,
        &replay,
    )
}
