//! C11 — training is total and its output is always usable. Engine E5.

use crate::gen;
use crate::report::*;
use crate::train::*;
use rayon::prelude::*;
use serde_json::{json, Value};
use vaporetto::{Model, Predictor, Sentence};

pub fn corpora(tier: Tier) -> Vec<Corpus> {
    let l = |p: bool, s: &str| (p, s.to_string());
    let mut v = vec![
        Corpus { name: "empty".into(), lines: vec![], tag_dict: vec![] },
        Corpus { name: "single-char-sentence".into(), lines: vec![l(false, "a")], tag_dict: vec![] },
        Corpus { name: "no-word-boundary".into(), lines: vec![l(false, "ab"), l(false, "abc")], tag_dict: vec![] },
        Corpus { name: "only-word-boundaries".into(), lines: vec![l(false, "a b"), l(false, "a b c")], tag_dict: vec![] },
        Corpus { name: "untagged".into(), lines: vec![l(false, "a b"), l(false, "ab a"), l(false, "あ a1")], tag_dict: vec![] },
        Corpus { name: "tagged-1cat".into(), lines: vec![l(false, "a/X b/Y"), l(false, "a/Z ab/Y a/X"), l(false, "b/Y a/X")], tag_dict: vec![] },
        Corpus { name: "tagged-3cat-partial".into(), lines: vec![l(false, "a/X/p/1 b/Y"), l(false, "a/Z//2 ab a/X/q"), l(false, "b//r a/X/p/1")], tag_dict: vec![] },
        Corpus { name: "partial-annotation".into(), lines: vec![l(true, "a|b-a"), l(true, "a b|a-a"), l(true, "あ-あ|a b")], tag_dict: vec![] },
        Corpus { name: "partial-tagged".into(), lines: vec![l(true, "a/X|b-a/Y"), l(true, "a b/Q|a/Z"), l(true, "a/Y|a/X")], tag_dict: vec![] },
        Corpus { name: "all-unknown".into(), lines: vec![l(true, "a b a"), l(true, "a b")], tag_dict: vec![] },
        Corpus { name: "tag-dict-only".into(), lines: vec![l(false, "a b"), l(false, "ab a")], tag_dict: vec!["c/D/E".into(), "あ/F".into()] },
        Corpus { name: "tag-dict-and-corpus".into(), lines: vec![l(false, "a/X b"), l(false, "a/Y ab/Z")], tag_dict: vec!["a/D".into(), "q/F/G".into()] },
        // sentences longer than the large windows, with characters that occur only sentence-finally / -initially
        Corpus { name: "long-final-only".into(), lines: vec![l(false, "あb a b ab a ba b ab a b1"), l(false, "あ ab ab a b a ab b a/X ab1"), l(false, "a/Y 1")], tag_dict: vec![] },
    ];
    if tier == Tier::Thorough {
        v.push(Corpus { name: "long-tagged".into(), lines: vec![l(false, "abc/T ab/S/u c/T"), l(false, "c/V abc/T a ab/S/w"), l(true, "a-b-c/T|a b")], tag_dict: vec!["abc/T".into()] });
        v.push(Corpus { name: "multibyte-tagged".into(), lines: vec![l(false, "𠀋/K あ/H 𠀋あ/M"), l(false, "あ/H2 𠀋/K")], tag_dict: vec![] });
    }
    v
}

pub fn check_case(cfg: &Config, corpus: &Corpus, texts: &[String]) -> (bool, Option<(String, String)>) {
    let (model, spec) = match train_once(cfg, corpus) {
        Err(p) => return (false, Some(("train-panic".into(), format!("training panicked: {p}")))),
        Ok(Trained::Err(_)) => return (false, None), // an error is an allowed outcome
        Ok(Trained::Ok(b)) => (b.0, b.1),
    };
    // weights within the signed 16-bit range
    let in16 = |w: &i32| (-32768..=32767).contains(w);
    let mut all: Vec<i32> = vec![spec.bias];
    all.extend(spec.char_ngram_model.iter().flat_map(|d| d.weights.iter().copied()));
    all.extend(spec.type_ngram_model.iter().flat_map(|d| d.weights.iter().copied()));
    all.extend(spec.dict_model.iter().flat_map(|d| d.weights.iter().copied()));
    for t in &spec.tag_models {
        all.extend(t.bias.iter().copied());
        all.extend(t.char_ngram_model.iter().flat_map(|d| d.weights.iter().flat_map(|w| w.weights.iter().copied())));
        all.extend(t.type_ngram_model.iter().flat_map(|d| d.weights.iter().flat_map(|w| w.weights.iter().copied())));
    }
    if let Some(w) = all.iter().find(|w| !in16(w)) {
        return (true, Some(("weight-range".into(), format!("trained model contains weight {w} outside the signed 16-bit range"))));
    }
    // serialise and re-read
    let bytes = match guard(|| {
        let mut b = vec![];
        model.write(&mut b).map(|_| b)
    }) {
        Err(p) => return (true, Some(("write-panic".into(), p))),
        Ok(Err(e)) => return (true, Some(("write-err".into(), format!("Model::write failed on a trained model: {e}")))),
        Ok(Ok(b)) => b,
    };
    match guard(|| Model::read(&bytes[..]).map(|m| m.to_vec().ok())) {
        Err(p) => return (true, Some(("read-panic".into(), p))),
        Ok(Err(e)) => return (true, Some(("read-err".into(), format!("the trained model cannot be re-read: {e}")))),
        Ok(Ok(b2)) => {
            if b2.as_deref() != Some(&bytes[..]) {
                return (true, Some(("reread-differs".into(), "the re-read model serialises differently".into())));
            }
        }
    }
    // accepted by the predictor with and without tag prediction; predicts and tags any text
    for pt in [false, true] {
        let m = Model::read(&bytes[..]).unwrap();
        let pred = match guard(|| Predictor::new(m, pt)) {
            Err(p) => return (true, Some((format!("predictor-new-panic pt={}", pt as u8), format!("Predictor::new(trained, {pt}) panicked: {p}")))),
            Ok(Err(e)) => return (true, Some((format!("predictor-new-err pt={}", pt as u8), format!("Predictor::new(trained, {pt}) rejected the model: {e}")))),
            Ok(Ok(mut p)) => {
                if pt {
                    p.store_tag_scores(true);
                }
                p
            }
        };
        for t in texts {
            let r = guard(|| {
                let mut s = Sentence::from_raw(t.clone()).unwrap();
                pred.predict(&mut s);
                if pt {
                    s.fill_tags();
                }
                crate::obs::observe(&s, false)
            });
            match r {
                Err(p) => return (true, Some((format!("predict-panic pt={}", pt as u8), format!("predict/fill_tags panicked on {t:?}: {p}")))),
                Ok(o) => {
                    if o.tokens.is_err() || o.tokenized.is_err() || o.partial.is_err() {
                        return (true, Some((format!("observe-panic pt={}", pt as u8), format!("accessors panicked on {t:?} after prediction with the trained model: {o:?}"))));
                    }
                }
            }
        }
    }
    (true, None)
}

fn sig(k: &str, cfg: &Config, corpus: &Corpus) -> String {
    format!("{k} {} corpus={}", cfg.short(), corpus.name)
}

pub fn replay(c: &Value) -> Option<(String, String)> {
    mute_stdout();
    if c["kind"] == "cli" {
        let mut case: CliCase = serde_json::from_value(c["case"].clone()).ok()?;
        case.label = format!("replay-{}", case.label);
        let orig = c["label"].as_str()?.to_string();
        return check_cli(&case).map(|(k, w)| (format!("{k} train-cli {orig}"), w));
    }
    let cfg: Config = serde_json::from_value(c["cfg"].clone()).ok()?;
    let corpus: Corpus = serde_json::from_value(c["corpus"].clone()).ok()?;
    let texts: Vec<String> = gen::strings(&['a', 'b', 'あ', '1'], 1, 3).iter().map(|t| gen::s(t)).collect();
    // training is randomised: look (up to 8 trainings) for the recorded kind of violation first
    let stored = c["kind"].as_str().unwrap_or("").to_string();
    let mut last = None;
    for _ in 0..8 {
        if let Some((k, w)) = check_case(&cfg, &corpus, &texts).1 {
            if k == stored {
                return Some((sig(&k, &cfg, &corpus), w));
            }
            last = Some((sig(&k, &cfg, &corpus), w));
        }
    }
    last
}

pub fn configs(tier: Tier) -> Vec<Config> {
    let mut out = vec![];
    let sizes: Vec<u8> = tier.pick(vec![0, 1, 2, 3], vec![0, 1, 2, 3, 5]);
    let solvers: Vec<u8> = tier.pick(vec![1, 5, 0], vec![0, 1, 2, 3, 4, 5, 6, 7]);
    let dicts: Vec<(Vec<String>, Vec<u8>)> = vec![(vec![], vec![1]), (vec!["a".into(), "ab".into(), "abc".into(), "あ".into()], tier.pick(vec![1, 2], vec![1, 2, 4, 255]))];
    let mut i = 0usize;
    for &cw in &sizes {
        for &cn in &sizes {
            for &tw in &sizes {
                for &tn in &sizes {
                    for (d, buckets) in &dicts {
                        for &b in buckets {
                            i += 1;
                            // every size combination with a rotating solver; all solvers on a sub-grid
                            for (k, &sv) in solvers.iter().enumerate() {
                                if k == i % solvers.len() || (cw + cn + tw + tn) % 5 == 0 {
                                    out.push(Config { charw: cw, charn: cn, typew: tw, typen: tn, dict: d.clone(), bucket: b, solver: sv });
                                }
                            }
                        }
                    }
                }
            }
        }
    }
    // one axis at a time: sizes around the predictor's fixed-length weight representation (8 slots) in both
    // tiers, the u8 extremes in thorough; and both windows large together
    for big in tier.pick(vec![7u8, 8, 9, 127, 128, 255], vec![7u8, 8, 9, 16, 127, 128, 129, 255]) {
        for axis in 0..4 {
            let mut v = [2u8, 2, 2, 2];
            v[axis] = big;
            out.push(Config { charw: v[0], charn: v[1], typew: v[2], typen: v[3], dict: vec!["ab".into()], bucket: 2, solver: 1 });
        }
        out.push(Config { charw: big, charn: 1, typew: big, typen: 1, dict: vec![], bucket: 1, solver: 5 });
        out.push(Config { charw: big, charn: 3, typew: big, typen: 3, dict: vec![], bucket: 1, solver: 1 });
    }
    // a HUGE dictionary (300 000 distinct six-letter words: the model is several MB, its decoded form tens of MB)
    {
        let words: Vec<String> = (0..300_000usize).map(|i| { let mut k = i; (0..6).map(|_| { let c = (b'c' + (k % 20) as u8) as char; k /= 20; c }).collect() }).collect();
        out.push(Config { charw: 2, charn: 2, typew: 2, typen: 2, dict: words, bucket: 3, solver: 1 });
    }
    // degenerate dictionary entries: the empty word (alone, first, last), a word repeated, a word that is
    // a single non-BMP character, white space only
    for d in [vec![""], vec!["", "ab"], vec!["ab", ""], vec!["ab", "ab"], vec!["𠀋"], vec![" "], vec!["a", "", "a"]] {
        for bucket in [1u8, 2] {
            out.push(Config { charw: 2, charn: 2, typew: 2, typen: 2, dict: d.iter().map(|x| x.to_string()).collect(), bucket, solver: 1 });
            out.push(Config { charw: 0, charn: 0, typew: 1, typen: 1, dict: d.iter().map(|x| x.to_string()).collect(), bucket, solver: 5 });
        }
    }
    out
}

pub fn run(tier: Tier) -> ! {
    let chk = Check::new("C11", tier, "exploration");
    quiet_panics();
    mute_stdout();
    chk.randomised.store(true, std::sync::atomic::Ordering::Relaxed);
    let cfgs = configs(tier);
    let cps = corpora(tier);
    let texts: Vec<String> = gen::strings(&['a', 'b', 'あ', '1'], 1, 3).iter().map(|t| gen::s(t)).collect();
    chk.set("configurations", json!(cfgs.len()));
    chk.set("corpora", json!(cps.iter().map(|c| c.name.clone()).collect::<Vec<_>>()));
    let models = std::sync::atomic::AtomicU64::new(0);
    cfgs.par_iter().for_each(|cfg| {
        for corpus in cps.iter() {
            // the huge dictionary with two ordinary corpora only (cost)
            if cfg.dict.len() > 1000 && !["untagged", "tagged-1cat"].contains(&corpus.name.as_str()) {
                continue;
            }
            chk.eval(1);
            let (t, v) = check_case(cfg, corpus, &texts);
            if t {
                models.fetch_add(1, std::sync::atomic::Ordering::Relaxed);
                chk.nontrivial(1);
            }
            if let Some((k, what)) = v {
                chk.violation(sig(&k, cfg, corpus), what, json!({"cfg": cfg, "corpus": corpus, "kind": k}));
            }
        }
    });
    // systematic tag matrices (every absent/X/Y assignment of every slot of every occurrence)
    let mut matrices = tag_matrix_corpora(2, 2, 1);
    matrices.extend(tag_matrix_corpora(3, 2, tier.pick(7, 1)));
    matrices.extend(tag_matrix_corpora(2, 3, tier.pick(7, 1)));
    let small: Vec<Config> = vec![
        Config { charw: 2, charn: 2, typew: 2, typen: 2, dict: vec![], bucket: 1, solver: 1 },
        Config { charw: 1, charn: 2, typew: 1, typen: 1, dict: vec![], bucket: 1, solver: 5 },
        Config { charw: 2, charn: 1, typew: 0, typen: 0, dict: vec!["a".into()], bucket: 1, solver: 0 },
    ];
    chk.set("tag_matrix_corpora", json!(matrices.len()));
    matrices.par_iter().enumerate().for_each(|(i, corpus)| {
        for (k, cfg) in small.iter().enumerate() {
            if tier == Tier::Quick && (i + k) % 3 != 0 {
                continue;
            }
            chk.eval(1);
            let (t, v) = check_case(cfg, corpus, &texts);
            if t {
                models.fetch_add(1, std::sync::atomic::Ordering::Relaxed);
                chk.nontrivial(1);
            }
            if let Some((k, what)) = v {
                chk.violation(sig(&k, cfg, corpus), what, json!({"cfg": cfg, "corpus": corpus, "kind": k}));
            }
        }
    });
    // very long dictionary words (around the u8 limit of the length bucket)
    {
        let mut jobs = vec![];
        for &len in &[255usize, 256, 257, 300] {
            for &bucket in &[1u8, 4, 255] {
                let w = "a".repeat(len);
                let cfg = Config { charw: 1, charn: 1, typew: 1, typen: 1, dict: vec![w.clone(), "b".into()], bucket, solver: 1 };
                let corpus = Corpus { name: format!("long-word-{len}"), lines: vec![(false, format!("b {w} b")), (false, "ab b a".to_string())], tag_dict: vec![] };
                jobs.push((cfg, corpus));
            }
        }
        jobs.par_iter().for_each(|(cfg, corpus)| {
            chk.eval(1);
            let (t, v) = check_case(cfg, corpus, &texts);
            if t {
                models.fetch_add(1, std::sync::atomic::Ordering::Relaxed);
                chk.nontrivial(1);
            }
            if let Some((k, what)) = v {
                let mut c2 = cfg.clone();
                c2.dict = vec![format!("a^{}", cfg.dict[0].chars().count()), "b".into()];
                chk.violation(sig(&k, &c2, corpus), what, json!({"cfg": cfg, "corpus": corpus, "kind": k, "noreplay": true}));
            }
        });
    }
    // the real train binary
    if !std::path::Path::new(&format!("{}/train", crate::c19::CLI_DIR)).exists() {
        machinery_error("train binary not built (the check driver builds it)");
    }
    let cases = cli_cases(tier);
    chk.set("train_cli_runs", json!(cases.len()));
    cases.par_iter().for_each(|c| {
        chk.eval(1);
        chk.nontrivial(1);
        if let Some((k, what)) = check_cli(c) {
            chk.violation(format!("{k} train-cli {}", c.label), what, json!({"kind": "cli", "label": c.label, "case": c}));
        }
    });
    chk.set("trainings_that_returned_a_model", json!(models.into_inner()));
    chk.sample(json!({"cfg": "cw=1 cn=3 tw=0 tn=2 dict=[a,ab,abc,あ] bucket=2 solver=5", "corpus": "tagged-3cat-partial"}));
    chk.sample(json!({"cfg": "cw=2 cn=2 tw=2 tn=2 solver=1", "corpus": "no-word-boundary", "allowed": "Err, never a panic"}));
    chk.assume("a crash of liblinear (C++) kills the engine process; the driver reports that as a violation with the crash log");
    chk.finish(
        "window / n-gram sizes incl. 0, n > window and differing windows x dictionaries and buckets x solvers x corpora (empty, single sentence, single class, untagged, tagged with 1-3 categories and absent tags, partially annotated, all-unknown, tag-dictionary-only tokens) plus all tag matrices (2 slots x 2 occurrences: all 81; 3x2 and 2x3: all 729 each in thorough, every 7th in quick) under three configurations: Trainer::new/add_example/train must return Ok or Err; a returned model must serialise, re-read identically, be accepted by Predictor::new with and without tag prediction, predict and tag every text up to 3 characters without panicking, and hold only 16-bit weights; plus the real train binary on every data-set combination of a small file pool (several --tok / --part / --dict files, full-width content, duplicate dictionary words, empty lines, no word boundary) x sizes x deterministic solvers {2, 0} x --no-norm x default / non-default --eps --cost --zstd-workers: exit 0 or a clean error, and the written model equals (structure exactly, every weight within 3 quantisation steps) the one the library pipeline yields on the same files; non-trivial = a model was returned; evaluations count (configuration, corpus) pairs",
        true,
        &replay,
    )
}

// ---------------------------------------------------------------------------------------------
// The real `train` binary (train/src/main.rs is anchored by C11): every data-set combination of a
// small file pool x flag combinations; the tool must end with exit 0 or a clean error (never a
// panic or a signal), and with a deterministic solver (0 and 2 use no random numbers) the model it
// writes must equal the model the library pipeline (parse, normalise, Trainer::new, add_example,
// train) yields in-process for the same files - tag models compared as a set.

#[derive(Clone, Debug, serde::Serialize, serde::Deserialize)]
pub struct CliCase {
    pub label: String,
    pub tok: Vec<Vec<String>>,
    pub part: Vec<Vec<String>>,
    pub dict: Vec<Vec<String>>,
    pub sizes: (u8, u8, u8, u8, u8),
    pub solver: u8,
    pub no_norm: bool,
    /// (--eps, --cost, --zstd-workers); None = the tool's defaults (0.01, 1.0, 0)
    #[serde(default)]
    pub opts: Option<(f64, f64, u32)>,
}

fn canon(mut m: crate::mirror::ModelSpec) -> crate::mirror::ModelSpec {
    m.tag_models.sort_by(|a, b| a.token.cmp(&b.token));
    m
}

/// In-process expectation: Err(msg) = the pipeline rejects the data (tool must fail cleanly).
fn cli_expected(c: &CliCase) -> Result<Result<crate::mirror::ModelSpec, String>, String> {
    use vaporetto_rules::{string_filters::KyteaFullwidthFilter, StringFilter};
    guard(|| {
        let norm = |s: Sentence<'static, 'static>| -> Result<Sentence<'static, 'static>, String> {
            if c.no_norm {
                return Ok(s);
            }
            let new_line = KyteaFullwidthFilter.filter(s.as_raw_text());
            let mut n = Sentence::from_raw(new_line).map_err(|e| e.to_string())?;
            n.boundaries_mut().clone_from_slice(s.boundaries());
            n.reset_tags(s.n_tags());
            n.tags_mut().clone_from_slice(s.tags());
            Ok(n)
        };
        let mut sents = vec![];
        // the tool reads its files with BufRead::lines(): every line is written with a final '\n', so ONE '\r' before
        // it belongs to the terminator
        let cut = |l: &String| -> String { l.strip_suffix('\r').unwrap_or(l).to_string() };
        for f in &c.tok {
            for l in f {
                let l = &cut(l);
                sents.push(norm(Sentence::from_tokenized(l).map_err(|e| e.to_string())?)?);
            }
        }
        for f in &c.part {
            for l in f {
                let l = &cut(l);
                sents.push(norm(Sentence::from_partial_annotation(l).map_err(|e| e.to_string())?)?);
            }
        }
        let mut tag_dict = vec![];
        let mut words = std::collections::BTreeSet::new();
        for f in &c.dict {
            for l in f {
                let l = &cut(l);
                let s = norm(Sentence::from_tokenized(l).map_err(|e| e.to_string())?)?;
                for t in s.iter_tokens() {
                    words.insert(t.surface().to_string());
                }
                tag_dict.push(s);
            }
        }
        liblinear::toggle_liblinear_stdout_output(false);
        let (cw, cn, tw, tn, dn) = c.sizes;
        let mut tr = vaporetto::Trainer::new(cw, cn, tw, tn, words.into_iter().collect::<Vec<_>>(), dn, &tag_dict).map_err(|e| e.to_string())?;
        for s in &sents {
            tr.add_example(s);
        }
        let (eps, cost, _) = c.opts.unwrap_or((0.01, 1.0, 0));
        let m = tr.train(eps, cost, solver(c.solver)).map_err(|e| e.to_string())?;
        crate::mirror::ModelSpec::from_model(&m).map(canon)
    })
}

/// Structural comparison with a tolerance of `tol` quantisation steps per weight (liblinear's
/// floating-point results differ in the last bits between the tool's build and the harness build;
/// a weight that quantises to 0 on one side may be absent there). Returns a description of the
/// first difference.
pub fn approx_diff(a: &crate::mirror::ModelSpec, b: &crate::mirror::ModelSpec, tol: i32) -> Option<String> {
    use std::collections::BTreeMap;
    if a.char_window_size != b.char_window_size || a.type_window_size != b.type_window_size {
        return Some(format!("window sizes ({}, {}) vs ({}, {})", a.char_window_size, a.type_window_size, b.char_window_size, b.type_window_size));
    }
    let close = |x: &[i32], y: &[i32]| x.len() == y.len() && x.iter().zip(y).all(|(p, q)| (p - q).abs() <= tol);
    let small = |x: &[i32]| x.iter().all(|p| p.abs() <= tol);
    if (a.bias - b.bias).abs() > tol {
        return Some(format!("bias {} vs {}", a.bias, b.bias));
    }
    fn cmp<K: Ord + Clone + std::fmt::Debug>(what: &str, x: BTreeMap<K, Vec<i32>>, y: BTreeMap<K, Vec<i32>>, close: &dyn Fn(&[i32], &[i32]) -> bool, small: &dyn Fn(&[i32]) -> bool) -> Option<String> {
        let keys: std::collections::BTreeSet<K> = x.keys().chain(y.keys()).cloned().collect();
        for k in keys {
            match (x.get(&k), y.get(&k)) {
                (Some(p), Some(q)) if close(p, q) => {}
                (Some(p), None) | (None, Some(p)) if small(p) => {}
                (p, q) => return Some(format!("{what} {k:?}: {p:?} vs {q:?}")),
            }
        }
        None
    }
    let m1 = |v: &[crate::mirror::NgramData<String>]| v.iter().map(|d| (d.ngram.clone(), d.weights.clone())).collect::<BTreeMap<_, _>>();
    let m2 = |v: &[crate::mirror::NgramData<Vec<u8>>]| v.iter().map(|d| (d.ngram.clone(), d.weights.clone())).collect::<BTreeMap<_, _>>();
    if let Some(d) = cmp("character n-gram", m1(&a.char_ngram_model), m1(&b.char_ngram_model), &close, &small) {
        return Some(d);
    }
    if let Some(d) = cmp("type n-gram", m2(&a.type_ngram_model), m2(&b.type_ngram_model), &close, &small) {
        return Some(d);
    }
    let wa: Vec<&String> = a.dict_model.iter().map(|d| &d.word).collect();
    let wb: Vec<&String> = b.dict_model.iter().map(|d| &d.word).collect();
    if wa != wb {
        return Some(format!("dictionary words {wa:?} vs {wb:?}"));
    }
    for (p, q) in a.dict_model.iter().zip(&b.dict_model) {
        if !close(&p.weights, &q.weights) {
            return Some(format!("dictionary word {:?}: {:?} vs {:?}", p.word, p.weights, q.weights));
        }
    }
    let ta: Vec<(&String, &Vec<Vec<String>>)> = a.tag_models.iter().map(|t| (&t.token, &t.tags)).collect();
    let tb: Vec<(&String, &Vec<Vec<String>>)> = b.tag_models.iter().map(|t| (&t.token, &t.tags)).collect();
    if ta != tb {
        return Some(format!("tag models {ta:?} vs {tb:?}"));
    }
    for (p, q) in a.tag_models.iter().zip(&b.tag_models) {
        if !close(&p.bias, &q.bias) {
            return Some(format!("tag bias of {:?}: {:?} vs {:?}", p.token, p.bias, q.bias));
        }
        let f1 = |v: &[crate::mirror::TagNgramData<String>]| v.iter().flat_map(|d| d.weights.iter().map(move |w| ((d.ngram.clone(), w.rel_position), w.weights.clone()))).collect::<BTreeMap<_, _>>();
        let f2 = |v: &[crate::mirror::TagNgramData<Vec<u8>>]| v.iter().flat_map(|d| d.weights.iter().map(move |w| ((d.ngram.clone(), w.rel_position), w.weights.clone()))).collect::<BTreeMap<_, _>>();
        if let Some(d) = cmp(&format!("tag character n-gram of {:?}", p.token), f1(&p.char_ngram_model), f1(&q.char_ngram_model), &close, &small) {
            return Some(d);
        }
        if let Some(d) = cmp(&format!("tag type n-gram of {:?}", p.token), f2(&p.type_ngram_model), f2(&q.type_ngram_model), &close, &small) {
            return Some(d);
        }
    }
    None
}

pub fn check_cli(c: &CliCase) -> Option<(String, String)> {
    let dir = format!("{}/c11-{}", crate::c19::SCRATCH, c.label);
    let _ = std::fs::remove_dir_all(&dir);
    std::fs::create_dir_all(&dir).unwrap_or_else(|e| machinery_error(&e.to_string()));
    let mut args: Vec<String> = vec![];
    for (kind, files) in [("tok", &c.tok), ("part", &c.part), ("dict", &c.dict)] {
        for (i, f) in files.iter().enumerate() {
            let p = format!("{dir}/{kind}{i}.txt");
            std::fs::write(&p, f.iter().map(|l| format!("{l}\n")).collect::<String>()).unwrap_or_else(|e| machinery_error(&e.to_string()));
            args.push(format!("--{kind}"));
            args.push(p);
        }
    }
    let model_path = format!("{dir}/model.zst");
    let (cw, cn, tw, tn, dn) = c.sizes;
    args.extend(["--model".to_string(), model_path.clone(), "--solver".into(), c.solver.to_string()]);
    args.extend(["--charw".to_string(), cw.to_string(), "--charn".into(), cn.to_string(), "--typew".into(), tw.to_string(), "--typen".into(), tn.to_string(), "--dictn".into(), dn.to_string()]);
    if c.no_norm {
        args.push("--no-norm".into());
    }
    if let Some((eps, cost, zw)) = c.opts {
        args.extend(["--eps".to_string(), eps.to_string(), "--cost".into(), cost.to_string(), "--zstd-workers".into(), zw.to_string()]);
    }
    let out = std::process::Command::new(format!("{}/train", crate::c19::CLI_DIR)).args(&args).output().unwrap_or_else(|e| machinery_error(&format!("cannot run train: {e}")));
    let stderr = String::from_utf8_lossy(&out.stderr).to_string();
    let code = out.status.code();
    let crashed = code.is_none() || code == Some(101) || stderr.contains("panicked at");
    let want = cli_expected(c);
    let r = (|| {
        if crashed {
            return Some(("train-crash".to_string(), format!("train ended with {:?}: {}", out.status, stderr.lines().filter(|l| l.contains("panicked") || l.contains("rror")).collect::<Vec<_>>().join(" | "))));
        }
        match want {
            Err(p) => Some(("pipeline-panic".to_string(), format!("the library pipeline panicked on the same data: {p}"))),
            Ok(Err(e)) => {
                if code == Some(0) {
                    Some(("train-accepts".to_string(), format!("train exited 0 although the library pipeline rejects the data ({e})")))
                } else {
                    None
                }
            }
            Ok(Ok(spec)) => {
                if code != Some(0) {
                    return Some(("train-rejects".to_string(), format!("train exited with {code:?} ({}) although the library pipeline trains a model", stderr.lines().last().unwrap_or(""))));
                }
                if c.label.starts_with("large") {
                    let n = spec.to_bytes().len();
                    if n < 200_000 {
                        machinery_error(&format!("the large corpus produced a model of only {n} bytes: not a large model"));
                    }
                }
                let z = match std::fs::read(&model_path) {
                    Ok(z) => z,
                    Err(e) => return Some(("train-no-model".to_string(), format!("train exited 0 but wrote no model: {e}"))),
                };
                let bytes = match zstd::decode_all(&z[..]) {
                    Ok(b) => b,
                    Err(e) => return Some(("train-model-unreadable".to_string(), format!("the written model is not valid zstd: {e}"))),
                };
                let got = match vaporetto::Model::read_slice(&bytes) {
                    Ok((m, rest)) if rest.is_empty() => match crate::mirror::ModelSpec::from_model(&m) {
                        Ok(g) => canon(g),
                        Err(e) => machinery_error(&e),
                    },
                    Ok((_, rest)) => return Some(("train-model-trailing".to_string(), format!("{} bytes follow the model in the written file", rest.len()))),
                    Err(e) => return Some(("train-model-unreadable".to_string(), format!("Model::read_slice rejects the written model: {e}"))),
                };
                // the large corpus runs liblinear for many more iterations: the last-bit differences between
                // the two builds accumulate on a noisy corpus (65 steps of 15000 observed, solver stops at eps 0.01); what the
                // case is there for is damage to a LARGE file, which is unreadable or grossly different
                let tol = if c.label.starts_with("large") { 1024 } else { 3 };
                if let Some(what) = approx_diff(&got, &spec, tol) {
                    return Some(("train-model-differs".to_string(), format!("the model written by train differs from the library pipeline's on the same files: {what}")));
                }
                None
            }
        }
    })();
    let _ = std::fs::remove_dir_all(&dir);
    r
}

pub fn cli_cases(tier: Tier) -> Vec<CliCase> {
    let v = |xs: &[&str]| xs.iter().map(|s| s.to_string()).collect::<Vec<String>>();
    let tok1 = v(&["a b", "ab a", "あ a1", "b ab"]);
    let tok2 = v(&["a/X b/Y", "a/Z ab/Y a/X", "b/Y a/X"]);
    let tokw = v(&["ａb 1２ ａ", "ab ａ ｂ/Q", "ﾗ－ ア―"]);
    let part1 = v(&["a|b-a", "a b|a-a", "ａ-b|a"]);
    let dict1 = v(&["ab", "a/D", "q/F/G"]);
    let dict2 = v(&["ab", "ab", "ｂ", "ａb a"]);
    let empty_line = v(&["a b", "", "b a"]);
    type D = (Vec<Vec<String>>, Vec<Vec<String>>, Vec<Vec<String>>);
    let data: Vec<(&str, D)> = vec![
        ("tok", (vec![tok1.clone()], vec![], vec![])),
        ("tagged+dict", (vec![tok2.clone()], vec![], vec![dict1.clone()])),
        ("part", (vec![], vec![part1.clone()], vec![])),
        ("two-tok+part+two-dict", (vec![tok1.clone(), tokw.clone()], vec![part1.clone()], vec![dict2.clone(), dict1.clone()])),
        ("two-tok-swapped", (vec![tokw.clone(), tok1.clone()], vec![], vec![dict2.clone()])),
        ("wide+dict", (vec![tokw.clone()], vec![], vec![dict2.clone()])),
        ("tok-with-empty-line", (vec![empty_line.clone()], vec![], vec![])),
        ("dict-with-empty-line", (vec![tok1.clone()], vec![], vec![empty_line.clone()])),
        ("part-with-empty-line", (vec![tok1.clone()], vec![empty_line.clone()], vec![])),
        ("no-boundary", (vec![v(&["ab", "abc"])], vec![], vec![])),
        // the FORM of the files: a byte-order mark at the start of the first line of every file, CRLF line ends,
        // a CR inside a line and CR CR LF
        ("bom-first-line", (vec![v(&["\u{feff}a b", "ab a", "あ a1"])], vec![v(&["\u{feff}a|b-a", "a b|a-a"])], vec![v(&["\u{feff}ab", "a/D"])])),
        ("crlf", (vec![v(&["a b\r", "ab a\r", "あ a1\r"])], vec![v(&["a|b-a\r", "a b|a-a\r"])], vec![v(&["ab\r", "a/D\r"])])),
        ("cr-inside-and-cr-cr-lf", (vec![v(&["a\rb a", "b ab\r\r", "a b"])], vec![], vec![v(&["ab"])])),
    ];
    let sizes: Vec<(u8, u8, u8, u8, u8)> = tier.pick(vec![(3, 3, 3, 3, 4), (1, 2, 2, 1, 1)], vec![(3, 3, 3, 3, 4), (1, 2, 2, 1, 1), (0, 1, 2, 2, 2), (2, 3, 0, 0, 255)]);
    let mut out = vec![];
    // one LARGE corpus (pseudo-random tokens over 40 characters): the written model is several hundred KiB,
    // i.e. many internal blocks of the compressor and of any buffered writer
    {
        let alpha: Vec<char> = "abcdefghijklmnopqrstuvwxyzあいうえおかきくけこ亜伊宇".chars().collect();
        let mut lines = vec![];
        let mut x = 0x9e3779b97f4a7c15u64;
        for _ in 0..tier.pick(1200, 4000) {
            let mut toks = vec![];
            for _ in 0..6 {
                x = crate::gen::mix(x);
                let len = 1 + (x % 4) as usize;
                let mut t = String::new();
                for k in 0..len {
                    t.push(alpha[((x >> (8 * k + 8)) % alpha.len() as u64) as usize]);
                }
                toks.push(t);
            }
            lines.push(toks.join(" "));
        }
        out.push(CliCase { label: "large-corpus".into(), tok: vec![lines], part: vec![], dict: vec![], sizes: (3, 3, 3, 3, 4), solver: 2, no_norm: true, opts: None });
    }
    for (name, (tok, part, dict)) in &data {
        for (si, &sz) in sizes.iter().enumerate() {
            for solver in [2u8, 0] {
                for no_norm in [false, true] {
                    if tier == Tier::Quick && (si + solver as usize / 2 + no_norm as usize) % 2 == 1 && !name.contains("two-tok+") {
                        continue;
                    }
                    // every other run with non-default --eps / --cost / --zstd-workers
                    let opts = if (si + solver as usize + no_norm as usize) % 2 == 0 { None } else { Some(([0.1, 0.001][si % 2], [0.25, 4.0][(solver / 2) as usize % 2], 2)) };
                    out.push(CliCase { label: format!("{name}-s{si}-v{solver}-n{}", no_norm as u8), tok: tok.clone(), part: part.clone(), dict: dict.clone(), sizes: sz, solver, no_norm, opts });
                }
            }
        }
    }
    out
}
