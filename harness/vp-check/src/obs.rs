//! Public observation of a `Sentence` (everything a user can see), each part value-or-panic.

use crate::report::guard;
use serde::{Deserialize, Serialize};
use vaporetto::Sentence;

pub type Tok = (usize, usize, String, Vec<Option<String>>);

#[derive(Clone, Debug, PartialEq, Eq, Hash, Serialize, Deserialize)]
pub struct Obs {
    pub text: String,
    pub types: Vec<u8>,
    pub boundaries: Vec<u8>,
    pub scores: Vec<i32>,
    pub n_tags: usize,
    pub tags: Vec<Option<String>>,
    pub tokens: Result<Vec<Tok>, String>,
    pub cands: Option<Result<Vec<Vec<Vec<(String, i32)>>>, String>>,
    pub tokenized: Result<String, String>,
    pub partial: Result<String, String>,
}

pub fn tokens_of(s: &Sentence) -> Result<Vec<Tok>, String> {
    guard(|| {
        let mut out = vec![];
        let mut n = 0;
        let cap = s.as_raw_text().len() + 10_000;
        let mut it = s.iter_tokens();
        while let Some(t) = it.next() {
            n += 1;
            if n > cap {
                panic!("token iterator does not terminate");
            }
            let surface = t.surface().to_string();
            let tags = t.tags().iter().map(|x| x.as_ref().map(|x| x.to_string())).collect();
            out.push((t.start(), t.end(), surface, tags));
        }
        // "each reported once": polling an exhausted iterator again must not report anything more
        for again in 1..=3 {
            if let Some(t) = it.next() {
                panic!("token iterator yielded [{}, {}) at poll {again} after it had returned None", t.start(), t.end());
            }
        }
        out
    })
}

pub fn cands_of(s: &Sentence) -> Result<Vec<Vec<Vec<(String, i32)>>>, String> {
    guard(|| {
        s.iter_tokens()
            .map(|t| {
                t.tag_candidates()
                    .into_iter()
                    .map(|c| c.into_iter().map(|(t, sc)| (t.to_string(), sc)).collect())
                    .collect()
            })
            .collect()
    })
}

pub fn tokenized_of(s: &Sentence) -> Result<String, String> {
    guard(|| {
        let mut buf = String::from("stale");
        s.write_tokenized_text(&mut buf);
        // the writer builds the String through as_mut_vec: validate explicitly
        match std::str::from_utf8(buf.as_bytes()) {
            Ok(_) => buf,
            Err(e) => panic!("write_tokenized_text produced invalid UTF-8: {e}"),
        }
    })
}

pub fn partial_of(s: &Sentence) -> Result<String, String> {
    guard(|| {
        let mut buf = String::from("stale");
        s.write_partial_annotation_text(&mut buf);
        buf
    })
}

pub fn observe(s: &Sentence, want_cands: bool) -> Obs {
    Obs {
        text: s.as_raw_text().to_string(),
        types: s.char_types().to_vec(),
        boundaries: s.boundaries().iter().map(|&b| b as u8).collect(),
        scores: guard(|| s.boundary_scores().to_vec()).unwrap_or_else(|_| vec![i32::MIN]),
        n_tags: s.n_tags(),
        tags: s.tags().iter().map(|x| x.as_ref().map(|x| x.to_string())).collect(),
        tokens: tokens_of(s),
        cands: if want_cands { Some(cands_of(s)) } else { None },
        tokenized: tokenized_of(s),
        partial: partial_of(s),
    }
}

pub fn label(b: u8) -> vaporetto::CharacterBoundary {
    match b {
        0 => vaporetto::CharacterBoundary::NotWordBoundary,
        1 => vaporetto::CharacterBoundary::WordBoundary,
        _ => vaporetto::CharacterBoundary::Unknown,
    }
}
