//! C04 — the partial-annotation format round-trips. Engine E1.

use crate::gen;
use crate::obs::{label, partial_of};
use crate::report::*;
use rayon::prelude::*;
use serde_json::{json, Value};
use vaporetto::Sentence;

fn trim(ts: &[Option<String>]) -> &[Option<String>] {
    let n = ts.iter().rposition(|t| t.is_some()).map_or(0, |p| p + 1);
    &ts[..n]
}

/// Sentence = text, labels in {N,W,U}, one tag list per character.
pub fn check_roundtrip(text: &[char], labels: &[u8], char_tags: &[Vec<Option<String>>]) -> Option<(String, String)> {
    let n = text.len();
    let n_tags = char_tags.iter().map(|t| t.len()).max().unwrap_or(0);
    let t: String = text.iter().collect();
    let written = guard(|| {
        let mut s = Sentence::from_raw(t.clone()).expect("from_raw");
        for (b, &l) in s.boundaries_mut().iter_mut().zip(labels) {
            *b = label(l);
        }
        s.reset_tags(n_tags);
        for (i, ts) in char_tags.iter().enumerate() {
            for (j, tg) in ts.iter().enumerate() {
                s.tags_mut()[i * n_tags + j] = tg.clone().map(|x| x.into());
            }
        }
        let owned = partial_of(&s);
        // the same sentence with BORROWED tag strings (what fill_tags and `"..".into()` store)
        let mut s2 = Sentence::from_raw(t.clone()).expect("from_raw");
        for (b, &l) in s2.boundaries_mut().iter_mut().zip(labels) {
            *b = label(l);
        }
        s2.reset_tags(n_tags);
        for (i, ts) in char_tags.iter().enumerate() {
            for (j, tg) in ts.iter().enumerate() {
                s2.tags_mut()[i * n_tags + j] = tg.as_deref().map(std::borrow::Cow::Borrowed);
            }
        }
        let borrowed = partial_of(&s2);
        if borrowed != owned {
            return Err(format!("borrowed tag strings are written as {borrowed:?}, owned ones as {owned:?}"));
        }
        owned
    });
    let w = match written {
        Err(p) => return Some(("setup-panic".into(), p)),
        Ok(Err(p)) => return Some(("write-panic".into(), format!("write_partial_annotation_text failed: {p}"))),
        Ok(Ok(w)) => w,
    };
    // route 0: the constructor; route 1: update_partial_annotation on a longer, more heavily tagged
    // sentence; route 2: update on a sentence of exactly the same shape (same number of characters and
    // tags per character) with every tag slot filled - the parser writes into reused buffers there
    for route in 0..3u8 {
        let via = ["", "-via-update", "-via-same-shape-update"][route as usize];
        let parsed = guard(|| {
            let r = match route {
                0 => Sentence::from_partial_annotation(&w),
                1 => {
                    let mut prior = Sentence::from_partial_annotation("q/T1/T2/T3/T4/T5-r/U1/U2/U3/U4/U5|s/V1/V2/V3/V4/V5 t/W1/W2/W3/W4/W5-u/X1/X2/X3/X4/X5|v/Y1/Y2/Y3/Y4/Y5").expect("prior line");
                    prior.update_partial_annotation(&w).map(|_| prior)
                }
                _ => {
                    let mut prior = Sentence::from_raw("z".repeat(n)).expect("prior");
                    prior.reset_tags(n_tags);
                    prior.tags_mut().iter_mut().for_each(|t| *t = Some("Z".into()));
                    prior.update_partial_annotation(&w).map(|_| prior)
                }
            };
            r.map(|p| {
                let tags: Vec<Option<String>> = p.tags().iter().map(|x| x.as_ref().map(|x| x.to_string())).collect();
                (p.as_raw_text().to_string(), p.boundaries().iter().map(|&b| b as u8).collect::<Vec<u8>>(), tags, p.n_tags())
            })
        });
        match parsed {
            Err(p) => return Some((format!("parse-panic{via}"), format!("parsing {w:?} panicked: {p}"))),
            Ok(Err(e)) => return Some((format!("parse-err{via}"), format!("the parser rejected written text {w:?}: {e}"))),
            Ok(Ok((raw, bs, ptags, pn))) => {
                if raw != t {
                    return Some((format!("text{via}"), format!("written {w:?} parses to text {raw:?}, expected {t:?}")));
                }
                if bs != labels {
                    return Some((format!("labels{via}"), format!("written {w:?} parses to labels {bs:?}, expected {labels:?}")));
                }
                if ptags.len() != pn * n {
                    return Some((format!("shape{via}"), format!("parsed tags.len()={} != n_tags {pn} x chars {n}", ptags.len())));
                }
                for i in 0..n {
                    let got = &ptags[i * pn..(i + 1) * pn];
                    if trim(got) != trim(&char_tags[i]) {
                        return Some((format!("tags{via}"), format!("char {i}: written {w:?} parses to tags {:?}, expected {:?}", trim(got), trim(&char_tags[i]))));
                    }
                }
            }
        }
    }
    None
}

fn lists(pool: &[Option<&str>], maxlen: usize) -> Vec<Vec<Option<String>>> {
    let mut out = vec![];
    for len in 0..=maxlen {
        for v in gen::vectors(pool.len() as u8, len) {
            out.push(v.iter().map(|&i| pool[i as usize].map(|s| s.to_string())).collect());
        }
    }
    out
}

fn lab(labels: &[u8]) -> String {
    labels.iter().map(|&l| ['-', '|', ' '][l as usize]).collect()
}

/// The delimiter class of a violation: which format characters occur inside tags (the coarse
/// signature under which a defect is recorded).
fn tag_delims(ct: &[Vec<Option<String>>]) -> String {
    let mut d: Vec<char> = vec![];
    for l in ct {
        for t in l.iter().flatten() {
            for c in t.chars() {
                if "/-| \\".contains(c) && !d.contains(&c) {
                    d.push(c);
                }
            }
        }
    }
    d.sort();
    d.into_iter().collect()
}

fn sig(kind: &str, text: &[char], labels: &[u8], ct: &[Vec<Option<String>>]) -> String {
    format!("{kind} tag-delims={:?} text={:?} labels={:?} tags={:?}", tag_delims(ct), gen::s(text), lab(labels), ct)
}

pub fn replay(c: &Value) -> Option<(String, String)> {
    let text: Vec<char> = c["text"].as_str()?.chars().collect();
    let labels: Vec<u8> = serde_json::from_value(c["labels"].clone()).ok()?;
    let tags: Vec<Vec<Option<String>>> = serde_json::from_value(c["tags"].clone()).ok()?;
    if let Some(l) = c["label"].as_str() {
        return check_roundtrip(&text, &labels, &tags).map(|(k, w)| (format!("{k} {l}"), w.chars().take(300).collect()));
    }
    check_roundtrip(&text, &labels, &tags).map(|(k, w)| (sig(&k, &text, &labels, &tags), w))
}

pub fn run(tier: Tier) -> ! {
    let chk = Check::new("C04", tier, "exploration");
    quiet_panics();
    let report = |text: &[char], labels: &[u8], ct: &[Vec<Option<String>>]| {
        chk.eval(1);
        if text.iter().any(|c| "-| /\\".contains(*c)) || ct.iter().any(|l| !l.is_empty()) {
            chk.nontrivial(1);
        }
        if let Some((k, what)) = check_roundtrip(text, labels, ct) {
            chk.violation(sig(&k, text, labels, ct), what, json!({"text": gen::s(text), "labels": labels, "tags": ct}));
        }
    };
    let sigma = ['a', 'あ', '-', '|', ' ', '/', '\\'];
    let tagpool: Vec<Option<&str>> = vec![None, Some("x"), Some("/"), Some("-"), Some("|"), Some(" "), Some("\\"), Some("a-b"), Some("あ"), Some("\u{3000}"), Some("a\tb")];
    // (a) untagged, all texts x all label vectors
    let texts = gen::strings(&sigma, 1, tier.pick(5, 6));
    texts.par_iter().for_each(|text| {
        for labels in gen::vectors(3, text.len() - 1) {
            report(text, &labels, &vec![vec![]; text.len()]);
        }
    });
    // (a') enriched alphabet at shorter length (low-byte look-alikes of the delimiters, non-ASCII
    // whitespace, a tab, every UTF-8 length), as text and as the tag of a one-character text
    let enriched = ['a', ' ', '/', '\\', '-', '|', 'Ġ', 'į', 'Ŝ', 'ĭ', 'ż', '\u{3000}', '\t', 'é', 'あ', '𠀋', '\u{85}'];
    let texts_e = gen::strings(&enriched, 1, tier.pick(3, 4));
    texts_e.par_iter().for_each(|text| {
        for labels in gen::vectors(3, text.len() - 1) {
            report(text, &labels, &vec![vec![]; text.len()]);
        }
        report(&['x'], &[], &[vec![Some(gen::s(text))]]);
        report(&['x', 'y'], &[2], &[vec![None, Some(gen::s(text))], vec![]]);
    });
    chk.set("enriched_texts", json!(texts_e.len()));
    // (a'') every Unicode scalar value (NUL excluded) as text and as tag, alone and between ordinary characters
    {
        let all: Vec<char> = (1u32..=0x10FFFF).filter_map(char::from_u32).collect();
        chk.set("all_scalar_values", json!(all.len()));
        all.par_iter().for_each(|&c| {
            let t = Some(c.to_string());
            report(&[c], &[], &[vec![t.clone()]]);
            if tier == Tier::Thorough || (c as u32) < 0x3100 || (c as u32) % 7 == 0 {
                for l in 0..3u8 {
                    report(&['a', c, 'b'], &[l, (l + 1) % 3], &[vec![t.clone()], vec![None, t.clone()], vec![]]);
                }
            }
        });
    }
    // (b) reduced text alphabet x all labels x <=1 tag on every character
    let l1 = lists(&tagpool, 1);
    let texts_b = gen::strings(&['a', '-', '/'], 1, tier.pick(3, 4));
    texts_b.par_iter().for_each(|text| {
        for labels in gen::vectors(3, text.len() - 1) {
            let total = l1.len().pow(text.len() as u32);
            for mut idx in 0..total {
                let mut ct = vec![];
                for _ in 0..text.len() {
                    ct.push(l1[idx % l1.len()].clone());
                    idx /= l1.len();
                }
                if ct.iter().any(|l| !l.is_empty()) {
                    report(text, &labels, &ct); // all-empty is part (a)
                }
            }
        }
    });
    // (c) full text alphabet, <=2 characters, <=2 (thorough: <=3 on 1-char texts) tags per character
    let l2 = lists(&tagpool, 2);
    let texts_c = gen::strings(&sigma, 1, 2);
    texts_c.par_iter().for_each(|text| {
        for labels in gen::vectors(3, text.len() - 1) {
            let total = l2.len().pow(text.len() as u32);
            for mut idx in 0..total {
                let mut ct = vec![];
                for _ in 0..text.len() {
                    ct.push(l2[idx % l2.len()].clone());
                    idx /= l2.len();
                }
                let in_b = text.iter().all(|c| "a-/".contains(*c)) && ct.iter().all(|l| l.len() <= 1);
                if ct.iter().any(|l| !l.is_empty()) && !in_b {
                    report(text, &labels, &ct); // the rest is part (a) / (b)
                }
            }
        }
    });
    if tier == Tier::Thorough {
        let l3 = lists(&tagpool, 3);
        for c in sigma {
            l3.par_iter().filter(|l| l.len() == 3).for_each(|l| report(&[c], &[], &[l.clone()]));
        }
    }
    // (d) threshold sizes: the number of tags of one character, of characters of a sentence and of characters of
    // one tag around 255/256 and 1 KiB (thorough also 4 KiB and u16); short signatures
    {
        let sizes: Vec<usize> = tier.pick(vec![254usize, 255, 256, 257, 300, 1025], vec![254, 255, 256, 257, 300, 1025, 4097, 65535, 65536, 65537]);
        let mut cases: Vec<(String, Vec<char>, Vec<u8>, Vec<Vec<Option<String>>>)> = vec![];
        let tg = |i: usize| -> Option<String> { if i % 7 == 3 { None } else { Some(format!("t{}", i % 11)) } };
        for &k in &sizes {
            // k tags on the first / middle / last of three characters; the others carry 0 or 2 tags
            for pos in 0..3usize {
                for other in [0usize, 2] {
                    let mut ct: Vec<Vec<Option<String>>> = (0..3).map(|_| (0..other).map(|i| Some(format!("o{i}"))).collect()).collect();
                    ct[pos] = (0..k).map(tg).collect();
                    *ct[pos].last_mut().unwrap() = Some("last".into());
                    cases.push((format!("{k}-tags-on-character-{pos}-others-{other}"), vec!['a', '-', 'あ'], vec![(pos % 3) as u8, ((pos + 1) % 3) as u8], ct));
                }
            }
            // k characters, every third with two tags, labels cycling
            {
                let text: Vec<char> = (0..k).map(|i| ['a', 'あ', '/', '-', '|'][i % 5]).collect();
                let ct: Vec<Vec<Option<String>>> = (0..k).map(|i| if i % 3 == 0 { vec![tg(i), Some("y".into())] } else { vec![] }).collect();
                cases.push((format!("{k}-characters"), text, (0..k - 1).map(|i| ((i + i / 4) % 3) as u8).collect(), ct));
            }
            // one tag of k characters
            {
                let tag: String = (0..k).map(|i| ['t', '/', 'あ', '-', '|', ' '][i % 6]).collect();
                cases.push((format!("{k}-character-tag"), vec!['a', 'b'], vec![1], vec![vec![Some(tag.clone())], vec![None, Some(tag)]]));
            }
        }
        // a delimiter-like character at EVERY byte offset around the block sizes inside one tag, and in the text
        // itself (the character at that offset of a long sentence), after 1-byte and after 3-byte filler
        {
            let mut offs: Vec<usize> = (0..=3).collect();
            for b in tier.pick(vec![64usize, 128, 256, 512, 1024], vec![64, 128, 256, 512, 1024, 4096, 8192, 65536]) {
                offs.extend(b - 6..=b + 6);
            }
            for &f in &offs {
                for sp in ['-', '|', ' ', '/', '\\'] {
                    for filler3 in [false, true] {
                        let mut body: Vec<char> = if filler3 { std::iter::repeat('あ').take(f / 3).chain(std::iter::repeat('a').take(f % 3)).collect() } else { vec!['a'; f] };
                        body.push(sp);
                        body.extend(['a', sp, 'あ']);
                        let tag: String = body.iter().collect();
                        cases.push((format!("special-at-byte-{f}-{:?}-filler3={}-in-tag", sp, filler3 as u8), vec!['a', 'b'], vec![(f % 3) as u8], vec![vec![None, Some(tag)], vec![Some("u".into())]]));
                        if sp != '-' || f % 4 == 0 {
                            let n = body.len();
                            let ct: Vec<Vec<Option<String>>> = (0..n).map(|i| if i + 2 == n { vec![Some("t".into())] } else { vec![] }).collect();
                            cases.push((format!("special-at-byte-{f}-{:?}-filler3={}-in-text", sp, filler3 as u8), body.clone(), (0..n - 1).map(|i| if i + 3 >= n { 1 } else { 0 }).collect(), ct));
                        }
                    }
                }
            }
        }
        chk.set("threshold_cases", json!(cases.len()));
        cases.par_iter().for_each(|(label, text, labels, ct)| {
            chk.eval(1);
            chk.nontrivial(1);
            if let Some((k, what)) = check_roundtrip(text, labels, ct) {
                let what: String = what.chars().take(300).collect();
                chk.violation(format!("{k} {label}"), what, json!({"text": gen::s(text), "labels": labels, "tags": ct, "label": label}));
            }
        });
    }
    chk.sample(json!({"text": "a-", "labels": "|", "tags": [["x", null, "a-b"], ["/"]]}));
    chk.sample(json!({"text": "あ|a", "labels": " -", "tags": [[], [" "], ["\\"]]}));
    chk.assume("sentences are built with from_raw + boundaries_mut + reset_tags + tags_mut; tags are non-empty and NUL-free");
    chk.finish(
        "(a) all texts over {a,あ,-,|,space,/,\\\\} x all {-,|,space} label vectors, untagged; (b) reduced text alphabet x all labels x every <=1-tag assignment per character over 11 hostile tags (incl. U+3000 and a tab); (c) texts of <=2 characters x every <=2-tag list per character; non-trivial = a delimiter in the text or any tag; distinct by construction",
        true,
        &replay,
    )
}
