//! Model families shared by C01, C06, C07, C13, C14, C18, C19.

use crate::gen::mix;
use crate::mirror::*;
use serde::{Deserialize, Serialize};

#[derive(Clone, Debug, PartialEq, Eq, Hash, Serialize, Deserialize)]
pub enum Entry {
    Char(String),
    Dict(String),
    Type(Vec<u8>),
}

impl Entry {
    pub fn len(&self) -> usize {
        match self {
            Entry::Char(s) | Entry::Dict(s) => s.chars().count(),
            Entry::Type(t) => t.len(),
        }
    }
    pub fn short(&self) -> String {
        match self {
            Entry::Char(s) => format!("c:{s}"),
            Entry::Dict(s) => format!("d:{s}"),
            Entry::Type(t) => format!("t:{}", t.iter().map(|x| x.to_string()).collect::<String>()),
        }
    }
}

/// Weight schemes. 0/1: two unrelated pseudo-random tables in the signed 16-bit range (a
/// misplaced, dropped or doubled weight changes a sum in both with overwhelming probability);
/// 2: small signed weights whose sums hit exactly 0 (exercises the `> 0` threshold);
/// 3: 16-bit extremes.
pub fn weight(scheme: u8, entry: usize, k: usize) -> i32 {
    let h = mix(((scheme as u64) << 40) ^ ((entry as u64) << 20) ^ k as u64 ^ 0x5151);
    match scheme {
        0 | 1 => (h % 60001) as i32 - 30000,
        2 => (h % 5) as i32 - 2,
        // 4: 32-bit magnitudes (the model stores i32 weights); 20 simultaneous contributions stay inside i32
        4 => [1 << 26, -(1 << 26), (1 << 25) + 1, 30_000_000, 0, 1, -1, -(1 << 25) - 7][(h % 8) as usize],
        _ => match h % 4 {
            0 => 32767,
            1 => -32768,
            2 => 1,
            _ => -1,
        },
    }
}

pub fn build(entries: &[Entry], wc: u8, wt: u8, bias: i32, scheme: u8) -> ModelSpec {
    let mut m = ModelSpec { bias, char_window_size: wc, type_window_size: wt, ..Default::default() };
    for (i, e) in entries.iter().enumerate() {
        match e {
            Entry::Char(s) => {
                let n = 2 * wc as usize + 1 - e.len();
                m.char_ngram_model.push(NgramData { ngram: s.clone(), weights: (0..n).map(|k| weight(scheme, i, k)).collect() });
            }
            Entry::Dict(s) => {
                let n = e.len() + 1;
                m.dict_model.push(WordWeightRecord { word: s.clone(), weights: (0..n).map(|k| weight(scheme, i, k)).collect(), comment: String::new() });
            }
            Entry::Type(t) => {
                let n = 2 * wt as usize + 1 - e.len();
                m.type_ngram_model.push(NgramData { ngram: t.clone(), weights: (0..n).map(|k| weight(scheme, i, k)).collect() });
            }
        }
    }
    m
}

/// Entry admissible under the windows (n-gram length <= 2*window).
pub fn admissible(e: &Entry, wc: u8, wt: u8) -> bool {
    match e {
        Entry::Char(_) => e.len() <= 2 * wc as usize,
        Entry::Dict(_) => true,
        Entry::Type(_) => e.len() <= 2 * wt as usize,
    }
}

/// Pool: every string over {a, あ} and every type string over {Roman=2, Hiragana=3} of length
/// 1..=maxlen, as character n-gram, dictionary word and type n-gram.
pub fn pool(maxlen: usize) -> Vec<Entry> {
    let mut out = vec![];
    for s in crate::gen::strings(&['a', 'あ'], 1, maxlen) {
        out.push(Entry::Char(s.iter().collect()));
    }
    for s in crate::gen::strings(&['a', 'あ'], 1, maxlen) {
        out.push(Entry::Dict(s.iter().collect()));
    }
    for s in crate::gen::strings(&['\u{2}', '\u{3}'], 1, maxlen) {
        out.push(Entry::Type(s.iter().map(|&c| c as u8).collect()));
    }
    out
}

/// A small tag model set that switches both scorers to their tag-aware variants.
pub fn attach_tags(m: &mut ModelSpec) {
    let wc = m.char_window_size;
    let wt = m.type_window_size;
    m.tag_models.push(TagModel {
        token: "a".into(),
        tags: vec![vec!["X".into(), "Y".into()], vec!["p".into()]],
        char_ngram_model: vec![TagNgramData {
            ngram: "あa".into(),
            weights: vec![TagWeight { rel_position: 0, weights: vec![5, -5] }],
        }],
        type_ngram_model: vec![TagNgramData {
            ngram: vec![2, 3],
            weights: vec![TagWeight { rel_position: 1.min(wt), weights: vec![-3, 3] }],
        }],
        bias: vec![1, 0],
    });
    m.tag_models.push(TagModel {
        token: "あ".into(),
        tags: vec![vec!["Z".into(), "W".into(), "V".into()]],
        char_ngram_model: vec![TagNgramData {
            ngram: "あ".into(),
            weights: vec![TagWeight { rel_position: 1.min(wc), weights: vec![0, 2, 1] }],
        }],
        type_ngram_model: vec![],
        bias: vec![0, 0, 0],
    });
}
