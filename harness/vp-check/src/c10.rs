//! C10 — training uses exactly the annotated boundaries with the documented features. Engine E5
//! (no training needed: the decoded example store is compared with an independent extractor).

use crate::gen;
use crate::obs::label;
use crate::report::*;
use crate::train::*;
use rayon::prelude::*;
use serde_json::{json, Value};
use std::collections::BTreeMap;
use vaporetto::{Sentence, Trainer, VerifFeature};

type Example = (BTreeMap<VerifFeature, u32>, u8);

fn make(text: &[char], labels: &[u8]) -> Sentence<'static, 'static> {
    let mut s = Sentence::from_raw(gen::s(text)).expect("from_raw");
    for (b, &l) in s.boundaries_mut().iter_mut().zip(labels) {
        *b = label(l);
    }
    s
}

fn expected(cfg: &Config, sents: &[(Vec<char>, Vec<u8>)]) -> Vec<Example> {
    let mut out = vec![];
    for (text, labels) in sents {
        for (i, &l) in labels.iter().enumerate() {
            if l != 2 {
                out.push((ref_features(cfg, text, i), l));
            }
        }
    }
    out.sort();
    out
}

pub fn check_case(cfg: &Config, sents: &[(Vec<char>, Vec<u8>)]) -> Option<(String, String)> {
    let built: Vec<Sentence<'static, 'static>> = sents.iter().map(|(t, l)| make(t, l)).collect();
    let r = guard(|| {
        let mut tr = Trainer::new(cfg.charw, cfg.charn, cfg.typew, cfg.typen, cfg.dict.clone(), cfg.bucket, &[]).map_err(|e| e.to_string())?;
        for s in &built {
            tr.add_example(s);
        }
        Ok::<_, String>((tr.verif_examples(), tr.n_features()))
    });
    let (got, n_features) = match r {
        Err(p) => return Some(("panic".into(), format!("Trainer::new/add_example panicked: {p}"))),
        Ok(Err(e)) => return Some(("new-err".into(), format!("Trainer::new failed on a valid configuration: {e}"))),
        Ok(Ok(g)) => g,
    };
    // the public counter agrees with the documented features of the annotated boundaries
    {
        let mut distinct = std::collections::BTreeSet::new();
        for (m, _) in expected(cfg, sents) {
            distinct.extend(m.into_keys());
        }
        if n_features != distinct.len() {
            return Some(("n-features".into(), format!("Trainer::n_features() = {n_features}, the annotated boundaries have {} distinct documented features", distinct.len())));
        }
    }
    let mut got: Vec<Example> = got
        .into_iter()
        .map(|(fs, y)| {
            let mut m = BTreeMap::new();
            for (f, v) in fs {
                *m.entry(f).or_insert(0) += v as u32;
            }
            (m, y as u8)
        })
        .collect();
    got.sort();
    let want = expected(cfg, sents);
    if got == want {
        return None;
    }
    // classify the difference
    let unknown_examples = got.iter().filter(|e| e.1 == 2).count();
    if unknown_examples > 0 {
        return Some(("unknown-boundary-became-example".into(), format!("{unknown_examples} example(s) labelled 'unknown' were handed to the learner; expected {} examples, got {}", want.len(), got.len())));
    }
    if got.len() != want.len() {
        return Some(("example-count".into(), format!("{} examples, expected {} (one per annotated boundary)", got.len(), want.len())));
    }
    let gl: Vec<u8> = got.iter().map(|e| e.1).collect();
    let wl: Vec<u8> = want.iter().map(|e| e.1).collect();
    let mut gls = gl.clone();
    gls.sort();
    let mut wls = wl.clone();
    wls.sort();
    if gls != wls {
        return Some(("labels".into(), format!("example labels {gl:?}, expected {wl:?}")));
    }
    // find the first differing example
    for (g, w) in got.iter().zip(&want) {
        if g != w {
            let extra: Vec<_> = g.0.iter().filter(|(f, c)| w.0.get(*f) != Some(*c)).collect();
            let missing: Vec<_> = w.0.iter().filter(|(f, c)| g.0.get(*f) != Some(*c)).collect();
            let kind = |f: &VerifFeature| match f {
                VerifFeature::CharNgram { .. } => "char",
                VerifFeature::TypeNgram { .. } => "type",
                VerifFeature::DictWord { .. } => "dict",
            };
            let k = extra.first().map(|x| kind(x.0)).or(missing.first().map(|x| kind(x.0))).unwrap_or("label");
            return Some((format!("features-{k}"), format!("an example has unexpected features {extra:?} and lacks {missing:?}")));
        }
    }
    Some(("features".into(), "example multisets differ".into()))
}

fn lab(l: &[u8]) -> String {
    l.iter().map(|&l| ['N', 'W', 'U'][l as usize]).collect()
}

fn sig(k: &str, cfg: &Config, sents: &[(Vec<char>, Vec<u8>)]) -> String {
    format!("{k} {} sentences={:?}", cfg.short(), sents.iter().map(|(t, l)| format!("{}:{}", gen::s(t), lab(l))).collect::<Vec<_>>())
}

pub fn replay(c: &Value) -> Option<(String, String)> {
    let cfg: Config = serde_json::from_value(c["cfg"].clone()).ok()?;
    let sents: Vec<(String, Vec<u8>)> = serde_json::from_value(c["sentences"].clone()).ok()?;
    let sents: Vec<(Vec<char>, Vec<u8>)> = sents.into_iter().map(|(t, l)| (t.chars().collect(), l)).collect();
    if c["short_sig"] == true {
        return check_case(&cfg, &sents).map(|(k, w)| (format!("{k} long-dict-word len={} bucket={}", cfg.dict[0].chars().count(), cfg.bucket), w));
    }
    check_case(&cfg, &sents).map(|(k, w)| (sig(&k, &cfg, &sents), w))
}

pub fn configs(tier: Tier) -> Vec<Config> {
    let mut out = vec![];
    let sizes: Vec<u8> = tier.pick(vec![0, 1, 2, 3], vec![0, 1, 2, 3, 4]);
    let dicts: Vec<(Vec<String>, Vec<u8>)> = vec![
        (vec![], vec![1]),
        (vec!["ab".into()], vec![1, 2, 4]),
        (vec!["a".into(), "ab".into(), "aba".into(), "あ".into(), "1a".into()], vec![1, 2, 4]),
        // only multi-byte words (byte length > character count for every word, the shortest included)
        (vec!["あ".into()], vec![1, 2]),
        (vec!["あa".into(), "ああ".into(), "aあb".into()], vec![1, 2]),
        // a suffix chain (each word is a proper suffix of the next) next to a prefix pair
        (vec!["b".into(), "ab".into(), "aab".into(), "1".into(), "1a".into()], vec![1, 3]),
    ];
    for &cw in &sizes {
        for &cn in &sizes {
            for &tw in &sizes {
                for &tn in &sizes {
                    for (d, buckets) in &dicts {
                        for &b in buckets {
                            out.push(Config { charw: cw, charn: cn, typew: tw, typen: tn, dict: d.clone(), bucket: b, solver: 1 });
                        }
                    }
                }
            }
        }
    }
    out
}

pub fn run(tier: Tier) -> ! {
    let chk = Check::new("C10", tier, "exploration");
    quiet_panics();
    let cfgs = configs(tier);
    let texts = gen::strings(&['a', 'b', 'あ', '1'], 1, tier.pick(3, 4));
    let mut sents: Vec<(Vec<char>, Vec<u8>)> = vec![];
    for t in &texts {
        for l in gen::vectors(3, t.len() - 1) {
            sents.push((t.clone(), l));
        }
    }
    chk.set("configurations", json!(cfgs.len()));
    chk.set("labelled_sentences", json!(sents.len()));
    // pairs: a sub-sample of ordered pairs (second sentence shares features with the first)
    let pair_step = tier.pick(37, 11);
    cfgs.par_iter().enumerate().for_each(|(ci, cfg)| {
        for (si, s) in sents.iter().enumerate() {
            let one = vec![s.clone()];
            chk.eval(1);
            if s.1.contains(&2) || !cfg.dict.is_empty() {
                chk.nontrivial(1);
            }
            if let Some((k, what)) = check_case(cfg, &one) {
                chk.violation(sig(&k, cfg, &one), what, json!({"cfg": cfg, "sentences": [(gen::s(&s.0), s.1.clone())]}));
            }
            if (si + ci) % pair_step == 0 {
                let other = &sents[(si * 7 + ci) % sents.len()];
                let two = vec![s.clone(), other.clone()];
                chk.eval(1);
                chk.nontrivial(1);
                if let Some((k, what)) = check_case(cfg, &two) {
                    chk.violation(sig(&k, cfg, &two), what, json!({"cfg": cfg, "sentences": [(gen::s(&s.0), s.1.clone()), (gen::s(&other.0), other.1.clone())]}));
                }
            }
        }
    });
    // window sizes around the u8 midpoint and maximum (2*window does not fit a u8 from 128 on)
    {
        let mut jobs = vec![];
        for &w in &[127u8, 128, 129, 200, 255] {
            for &n in &[1u8, 2, 3, 6] {
                for which in 0..2 {
                    let cfg = if which == 0 { Config { charw: w, charn: n, typew: 1, typen: 1, dict: vec![], bucket: 1, solver: 1 } } else { Config { charw: 1, charn: 1, typew: w, typen: n, dict: vec!["ab".into()], bucket: 2, solver: 1 } };
                    for text in ["ab", "aba1", "あab1ab"] {
                        let t: Vec<char> = text.chars().collect();
                        let labels: Vec<u8> = (0..t.len() - 1).map(|i| (i % 3) as u8).collect();
                        jobs.push((cfg.clone(), vec![(t, labels)]));
                    }
                }
            }
        }
        // ... and LONG sentences (around 128/256 characters and beyond) under small and large windows, so that
        // relative positions really take every value of the window (a short text never reaches offset 128)
        for &w in &[3u8, 127, 128, 129, 200, 255] {
            for &len in &tier.pick(vec![130usize, 257, 300], vec![130, 257, 300, 520, 1025]) {
                for which in 0..2 {
                    let cfg = if which == 0 { Config { charw: w, charn: 2, typew: 1, typen: 1, dict: vec![], bucket: 1, solver: 1 } } else { Config { charw: 1, charn: 1, typew: w, typen: 2, dict: vec!["ab".into()], bucket: 2, solver: 1 } };
                    let t: Vec<char> = (0..len).map(|i| ['a', 'b', 'あ', '1'][(i * i / 3 + i / 5) % 4]).collect();
                    // few annotated boundaries (start, both sides of 128 and 256, end), the rest unknown
                    let mut labels = vec![2u8; len - 1];
                    for (k, &pos) in [0usize, 1, 126, 127, 128, 129, 254, 255, 256, len - 3, len - 2].iter().enumerate() {
                        if pos < labels.len() {
                            labels[pos] = (k % 2) as u8;
                        }
                    }
                    jobs.push((cfg, vec![(t, labels)]));
                }
            }
        }
        chk.set("large_window_cases", json!(jobs.len()));
        jobs.par_iter().for_each(|(cfg, sents)| {
            chk.eval(1);
            chk.nontrivial(1);
            if let Some((k, what)) = check_case(cfg, sents) {
                chk.violation(sig(&k, cfg, sents), what, json!({"cfg": cfg, "sentences": sents.iter().map(|(t, l)| (gen::s(t), l.clone())).collect::<Vec<_>>()}));
            }
        });
    }
    // long dictionary words (lengths around the u8 limit) with small and large buckets
    {
        let long = |n: usize| "a".repeat(n);
        let mut jobs = vec![];
        for &len in &[255usize, 256, 257, 300, 513] {
            for &bucket in &[1u8, 4, 200, 255] {
                let cfg = Config { charw: 1, charn: 1, typew: 0, typen: 0, dict: vec![long(len), "ab".into()], bucket, solver: 1 };
                for extra in 0..3usize {
                    // sentence: b^extra a^len b  (the word occurs once, away from / at the sentence start)
                    let text: Vec<char> = "b".repeat(extra).chars().chain(long(len).chars()).chain("b".chars()).collect();
                    let mut labels = vec![0u8; text.len() - 1];
                    if extra > 0 {
                        labels[extra - 1] = 1;
                    }
                    labels[extra + len - 1] = 1;
                    labels[extra + len / 2] = 2;
                    jobs.push((cfg.clone(), vec![(text, labels)]));
                }
            }
        }
        chk.set("long_dictionary_word_cases", json!(jobs.len()));
        jobs.par_iter().for_each(|(cfg, sents)| {
            chk.eval(1);
            chk.nontrivial(1);
            if let Some((k, what)) = check_case(cfg, sents) {
                let short = format!("{k} long-dict-word len={} bucket={}", cfg.dict[0].chars().count(), cfg.bucket);
                chk.violation(short, what, json!({"cfg": cfg, "sentences": sents.iter().map(|(t, l)| (gen::s(t), l.clone())).collect::<Vec<_>>(), "short_sig": true}));
            }
        });
    }
    chk.sample(json!({"cfg": "cw=2 cn=2 tw=1 tn=3 dict=[a,ab,aba,あ,1a] bucket=2", "sentence": "ab1a", "labels": "WUN", "expected_examples": 2}));
    chk.assume("reference features: n-grams of length 1..N fully inside [i+1-W, i+1+W) with rel = start-(i+1); one left/inside/right(bucket) feature per dictionary-word occurrence touching the boundary, with multiplicity");
    chk.finish(
        "every (char window, char n, type window, type n) in the grid x 13 dictionary/bucket variants (none, one word, prefix-related words, only multi-byte words, a suffix chain) x every sentence up to the bound over {a,b,あ,1} x every {N,W,U} label vector, alone and (sub-sampled) in pairs; the decoded example store must equal, as a multiset, one example per annotated boundary with the documented features; non-trivial = has an unknown boundary or a dictionary; distinct by construction",
        true,
        &replay,
    )
}
