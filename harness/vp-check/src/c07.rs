//! C07 — model files round-trip; partial or foreign files are rejected.
//! Engine E3: every truncation point, every header-byte corruption, every failing position of
//! the underlying reader / writer.

use crate::mirror::*;
use crate::refmodel::*;
use crate::report::*;
use rayon::prelude::*;
use serde_json::{json, Value};
use std::io::{self, Read, Write};
use vaporetto::{Model, Predictor, Sentence};

/// Reader delivering at most `chunk` bytes per call, optionally failing once `fail_at` bytes
/// have been delivered (`kind`: 0 = Err(Other), 1 = Ok(0) i.e. EOF, 2 = Err(Interrupted) once
/// and then continue, 3 = Err(Other) once and then continue: a transient error must still be reported).
pub struct FaultReader<'a> {
    data: &'a [u8],
    pos: usize,
    chunk: usize,
    fail_at: Option<usize>,
    kind: u8,
    fired: bool,
}

impl Read for FaultReader<'_> {
    fn read(&mut self, buf: &mut [u8]) -> io::Result<usize> {
        if let Some(k) = self.fail_at {
            if self.pos >= k && !(self.kind >= 2 && self.fired) {
                self.fired = true;
                return match self.kind {
                    0 | 3 => Err(io::Error::new(io::ErrorKind::Other, "injected read fault")),
                    1 => Ok(0),
                    _ => Err(io::Error::new(io::ErrorKind::Interrupted, "injected interrupt")),
                };
            }
        }
        let mut n = buf.len().min(self.chunk).min(self.data.len() - self.pos);
        if let Some(k) = self.fail_at {
            if self.pos < k {
                n = n.min(k - self.pos);
            }
        }
        buf[..n].copy_from_slice(&self.data[self.pos..self.pos + n]);
        self.pos += n;
        Ok(n)
    }
}

/// Writer accepting at most `chunk` bytes per call and failing once `fail_at` bytes were taken
/// (`kind`: 0 = Err, 1 = Ok(0), 2 = Interrupted once).
pub struct FaultWriter {
    pub got: Vec<u8>,
    chunk: usize,
    fail_at: Option<usize>,
    kind: u8,
    fired: bool,
}

impl Write for FaultWriter {
    fn write(&mut self, buf: &[u8]) -> io::Result<usize> {
        if let Some(k) = self.fail_at {
            if self.got.len() >= k && !(self.kind >= 2 && self.fired) {
                self.fired = true;
                return match self.kind {
                    0 | 3 => Err(io::Error::new(io::ErrorKind::Other, "injected write fault")),
                    1 => Ok(0),
                    _ => Err(io::Error::new(io::ErrorKind::Interrupted, "injected interrupt")),
                };
            }
        }
        let mut n = buf.len().min(self.chunk);
        if let Some(k) = self.fail_at {
            if self.got.len() < k {
                n = n.min(k - self.got.len());
            }
        }
        self.got.extend_from_slice(&buf[..n]);
        Ok(n)
    }
    fn flush(&mut self) -> io::Result<()> {
        Ok(())
    }
}

fn v(kind: &str, what: String) -> Option<(String, String)> {
    Some((kind.to_string(), what))
}

/// One fault / round-trip case on serialisation `b`. `op` selects the experiment.
pub fn check_case(b: &[u8], op: &Value) -> Option<(String, String)> {
    let kind = op["op"].as_str().unwrap();
    let k = op["k"].as_u64().unwrap_or(0) as usize;
    match kind {
        "roundtrip" => {
            let r = guard(|| {
                let (m, rest) = Model::read_slice(b).map_err(|e| format!("read_slice: {e}"))?;
                if !rest.is_empty() {
                    return Err(format!("read_slice left {} bytes", rest.len()));
                }
                if m.to_vec().map_err(|e| e.to_string())? != b {
                    return Err("to_vec(read_slice(b)) != b".into());
                }
                // the public accessors show what the bytes hold (mirror-decoded)
                if let Ok((spec, _)) = crate::mirror::ModelSpec::from_bytes(b) {
                    let toks: Vec<&str> = m.tag_models().iter().map(|t| t.token()).collect();
                    let want: Vec<&str> = spec.tag_models.iter().map(|t| t.token.as_str()).collect();
                    if toks != want {
                        return Err(format!("Model::tag_models() lists tokens {toks:?}, the file holds {want:?}"));
                    }
                    let dict: Vec<(&str, &[i32], &str)> = m.dictionary().iter().map(|r| (r.get_word(), r.get_weights(), r.get_comment())).collect();
                    let wantd: Vec<(&str, &[i32], &str)> = spec.dict_model.iter().map(|r| (r.word.as_str(), &r.weights[..], r.comment.as_str())).collect();
                    if dict != wantd {
                        return Err(format!("Model::dictionary() differs from the file's dictionary: {dict:?} vs {wantd:?}"));
                    }
                }
                let mut w = vec![];
                m.write(&mut w).map_err(|e| format!("write: {e}"))?;
                if w != b {
                    return Err("write(read_slice(b)) != b".into());
                }
                Ok::<(), String>(())
            });
            match r {
                Err(p) => v("roundtrip-panic", p),
                Ok(Err(e)) => v("roundtrip", e),
                Ok(Ok(())) => None,
            }
        }
        "read-chunked" => {
            let r = guard(|| {
                let m = Model::read(FaultReader { data: b, pos: 0, chunk: k, fail_at: None, kind: 0, fired: false }).map_err(|e| format!("read: {e}"))?;
                if m.to_vec().map_err(|e| e.to_string())? != b {
                    return Err("to_vec(read(b)) != b".into());
                }
                Ok::<(), String>(())
            });
            match r {
                Err(p) => v("read-chunked-panic", p),
                Ok(Err(e)) => v("read-chunked", format!("reader delivering {k} bytes per call: {e}")),
                Ok(Ok(())) => None,
            }
        }
        "read-sequence" => {
            // two models written back to back into one stream are both read back from the reader
            let mut buf = b.to_vec();
            buf.extend_from_slice(b);
            let r = guard(|| {
                let mut rdr = FaultReader { data: &buf, pos: 0, chunk: k, fail_at: None, kind: 0, fired: false };
                let m1 = Model::read(&mut rdr).map_err(|e| format!("first read: {e}"))?;
                let m2 = Model::read(&mut rdr).map_err(|e| format!("second read (the stream still held a complete model): {e}"))?;
                if m1.to_vec().map_err(|e| e.to_string())? != b || m2.to_vec().map_err(|e| e.to_string())? != b {
                    return Err("a model read back from the stream re-serialises differently".into());
                }
                if rdr.pos != buf.len() {
                    return Err(format!("{} bytes of the stream were not consumed", buf.len() - rdr.pos));
                }
                Ok::<(), String>(())
            });
            match r {
                Err(p) => v("read-sequence-panic", p),
                Ok(Err(e)) => v("read-sequence", format!("two models in one stream, reader delivering {k} bytes per call: {e}")),
                Ok(Ok(())) => None,
            }
        }
        "tail" => {
            let tails: [Vec<u8>; 4] = [vec![], vec![0], b.to_vec(), (0..64u32).map(|i| (i * 37 + 11) as u8).collect()];
            let t = &tails[k];
            let mut buf = b.to_vec();
            buf.extend_from_slice(t);
            match guard(|| Model::read_slice(&buf).map(|(m, rest)| (m.to_vec().ok(), rest.to_vec()))) {
                Err(p) => v("tail-panic", p),
                Ok(Err(e)) => v("tail", format!("read_slice(b ++ tail{k}) failed: {e}")),
                Ok(Ok((mv, rest))) => {
                    if &rest != t {
                        v("tail", format!("read_slice(b ++ tail{k}) returned a rest of {} bytes, expected the {} tail bytes", rest.len(), t.len()))
                    } else if mv.as_deref() != Some(b) {
                        v("tail", "model read before a tail re-serialises differently".into())
                    } else {
                        None
                    }
                }
            }
        }
        "prefix-slice" | "prefix-read" => {
            let p = &b[..k];
            let r = guard(|| {
                if kind == "prefix-slice" {
                    Model::read_slice(p).map(|(m, _)| m.to_vec().ok())
                } else {
                    Model::read(p).map(|m| m.to_vec().ok())
                }
            });
            match r {
                Err(pn) => v(&format!("{kind}-panic"), format!("{kind} of the first {k} of {} bytes panicked: {pn}", b.len())),
                Ok(Ok(_)) => v(&format!("{kind}-accepted"), format!("the first {k} of {} bytes were accepted as a model", b.len())),
                Ok(Err(_)) => None,
            }
        }
        "header-slice" | "header-read" => {
            let pos = k / 256;
            let val = (k % 256) as u8;
            let mut c = b.to_vec();
            if c[pos] == val {
                return None;
            }
            c[pos] = val;
            let r = guard(|| {
                if kind == "header-slice" {
                    Model::read_slice(&c).is_ok()
                } else {
                    Model::read(&c[..]).is_ok()
                }
            });
            match r {
                Err(pn) => v(&format!("{kind}-panic"), format!("header byte {pos} := {val}: panicked: {pn}")),
                Ok(true) => v(&format!("{kind}-accepted"), format!("header byte {pos} := {val} (was {}): accepted", b[pos])),
                Ok(false) => None,
            }
        }
        "read-fault" => {
            let fk = op["fault"].as_u64().unwrap() as u8;
            let chunk = op["chunk"].as_u64().unwrap() as usize;
            let r = guard(|| Model::read(FaultReader { data: b, pos: 0, chunk, fail_at: Some(k), kind: fk, fired: false }).map(|m| m.to_vec().ok()));
            let must_fail = fk != 2 && k < b.len();
            match r {
                Err(pn) => v("read-fault-panic", format!("reader failing (kind {fk}) after {k} bytes: panicked: {pn}")),
                Ok(Ok(mv)) => {
                    if must_fail {
                        v("read-fault-accepted", format!("reader failing (kind {fk}) after {k} of {} bytes: a model was returned", b.len()))
                    } else if mv.as_deref() != Some(b) {
                        v("read-fault-different", format!("reader fault kind {fk} at {k}: a different model was returned"))
                    } else {
                        None
                    }
                }
                Ok(Err(e)) => {
                    if must_fail {
                        None
                    } else {
                        v("read-fault-spurious", format!("reader fault kind {fk} at {k} of {} bytes should not prevent reading: {e}", b.len()))
                    }
                }
            }
        }
        "write-fault" => {
            let fk = op["fault"].as_u64().unwrap() as u8;
            let chunk = op["chunk"].as_u64().unwrap() as usize;
            let r = guard(|| {
                let (m, _) = Model::read_slice(b).map_err(|e| e.to_string())?;
                let mut w = FaultWriter { got: vec![], chunk, fail_at: Some(k), kind: fk, fired: false };
                let res = m.write(&mut w).is_ok();
                Ok::<_, String>((res, w.got))
            });
            let must_fail = fk != 2 && k < b.len();
            match r {
                Err(pn) => v("write-fault-panic", format!("writer failing (kind {fk}) after {k} bytes: panicked: {pn}")),
                Ok(Err(e)) => v("write-fault-setup", e),
                Ok(Ok((ok, got))) => {
                    if !b.starts_with(&got) {
                        v("write-fault-garbage", format!("writer fault kind {fk} at {k}: bytes handed to the writer are not a prefix of the serialisation"))
                    } else if ok && must_fail {
                        v("write-fault-swallowed", format!("writer failing (kind {fk}) after {k} of {} bytes but write() returned Ok", b.len()))
                    } else if ok && got != b {
                        v("write-fault-short", "write() returned Ok but not all bytes were written".into())
                    } else if !ok && !must_fail {
                        v("write-fault-spurious", format!("writer fault kind {fk} at {k} should not make write() fail"))
                    } else {
                        None
                    }
                }
            }
        }
        "write-after-fault" | "read-after-fault" => {
            // history: a write (read) that fails after k bytes, then - on the same thread, with the same
            // library state - a complete write of the same model into a Vec (a complete read from the slice)
            let fk = op["fault"].as_u64().unwrap() as u8;
            let is_write = op["op"] == "write-after-fault";
            let r = guard(|| {
                let (m, _) = Model::read_slice(b).map_err(|e| e.to_string())?;
                if is_write {
                    let mut w = FaultWriter { got: vec![], chunk: 7, fail_at: Some(k), kind: fk, fired: false };
                    let _ = m.write(&mut w);
                } else {
                    let _ = Model::read(FaultReader { data: b, pos: 0, chunk: 7, fail_at: Some(k), kind: fk, fired: false });
                }
                let mut out = vec![];
                m.write(&mut out).map_err(|e| format!("the write after the failed one failed too: {e}"))?;
                let again = Model::read(&b[..]).map_err(|e| format!("the read after the failed one failed too: {e}"))?.to_vec().map_err(|e| e.to_string())?;
                Ok::<_, String>((out, again))
            });
            match r {
                Err(pn) => v("after-fault-panic", pn),
                Ok(Err(e)) => v("after-fault", e),
                Ok(Ok((out, again))) => {
                    if out != b {
                        v("after-fault", format!("after a {} that failed at byte {k} (kind {fk}), a complete write produced {} bytes that differ from to_vec ({} bytes)", if is_write { "write" } else { "read" }, out.len(), b.len()))
                    } else if again != b {
                        v("after-fault", format!("after a {} that failed at byte {k} (kind {fk}), a complete read gives a different model", if is_write { "write" } else { "read" }))
                    } else {
                        None
                    }
                }
            }
        }
        "predict" => {
            // the model read through the reader predicts like the model read from the slice, and like the reference
            let (spec, _) = ModelSpec::from_bytes(b).ok()?;
            let r = guard(|| {
                let p1 = Predictor::new(Model::read_slice(b).map_err(|e| e.to_string())?.0, false).map_err(|e| e.to_string())?;
                let p2 = Predictor::new(Model::read(FaultReader { data: b, pos: 0, chunk: 3, fail_at: None, kind: 0, fired: false }).map_err(|e| e.to_string())?, false).map_err(|e| e.to_string())?;
                for t in ["aあa𠀋ab", "abab", "ああaa"] {
                    let mut s1 = Sentence::from_raw(t).unwrap();
                    let mut s2 = Sentence::from_raw(t).unwrap();
                    p1.predict(&mut s1);
                    p2.predict(&mut s2);
                    let want: Vec<i32> = ref_score(&spec, &chars(t)).iter().map(|&x| x as i32).collect();
                    if s1.boundary_scores() != s2.boundary_scores() || s1.boundary_scores() != want {
                        return Err(format!("text {t}: slice-read {:?}, reader-read {:?}, reference {want:?}", s1.boundary_scores(), s2.boundary_scores()));
                    }
                }
                Ok::<_, String>(())
            });
            match r {
                Err(pn) => v("predict-panic", pn),
                Ok(Err(e)) => v("predict", e),
                Ok(Ok(())) => None,
            }
        }
        _ => machinery_error("unknown C07 op"),
    }
}

pub fn model_pool(tier: Tier) -> Vec<(String, Vec<u8>)> {
    let mut out: Vec<(String, Vec<u8>)> = vec![];
    out.push(("empty".into(), ModelSpec { char_window_size: 1, type_window_size: 1, ..Default::default() }.to_bytes()));
    // varint widths: 1-, 3- and 5-byte encodings; long comments; multi-byte
    out.push((
        "varints".into(),
        ModelSpec {
            char_ngram_model: vec![NgramData { ngram: "あ𠀋é".into(), weights: vec![0, 125, -126, 250, 251, -32768, 32767, 65535, 65536, i32::MAX, i32::MIN] }],
            type_ngram_model: vec![NgramData { ngram: vec![1, 2, 3, 4, 5, 6], weights: vec![-1; 300] }],
            dict_model: vec![WordWeightRecord { word: "語".into(), weights: vec![1, -1], comment: "c".repeat(300) }, WordWeightRecord { word: "a,\"\n".into(), weights: vec![0; 5], comment: "".into() }],
            bias: -70000,
            char_window_size: 255,
            type_window_size: 200,
            tag_models: vec![],
        }
        .to_bytes(),
    ));
    let step1 = tier.pick(100, 2);
    for (_, fam) in crate::c01::families(Tier::Quick) {
        for b in fam.into_iter().step_by(step1) {
            out.push((format!("C01:{}", b.desc), b.spec.to_bytes()));
        }
    }
    let step2 = tier.pick(75, 2);
    for c in crate::c06::families(Tier::Quick).into_iter().step_by(step2) {
        out.push((format!("C06:{}", c.desc), c.spec.to_bytes()));
    }
    out.push(("bfs:tags2".into(), crate::bfs::model_tags2().to_bytes()));
    for (d, spec) in crate::c01::edge_family().into_iter().step_by(tier.pick(5, 1)) {
        out.push((d, spec.to_bytes()));
    }
    for (d, spec) in crate::c06::zero_tag_family().into_iter().step_by(tier.pick(7, 2)) {
        out.push((d, spec.to_bytes()));
    }
    // boundary values of constants visible in the code: dictionary words around 32767 bytes /
    // characters (the scorers' documented limit is 32767 CHARACTERS); only the round-trip
    // experiments are run on these large files (see ops_for)
    for (name, word) in [("word-10923-kanji(32769 bytes)", "語".repeat(10923)), ("word-32767-ascii", "a".repeat(32767)), ("word-8192-nonbmp(32768 bytes)", "𠀋".repeat(8192))] {
        let n = word.chars().count();
        let mut w = vec![0i32; n + 1];
        w[0] = 5;
        w[n] = -5;
        out.push((name.to_string(), ModelSpec { dict_model: vec![WordWeightRecord { word, weights: w, comment: "".into() }], char_window_size: 1, type_window_size: 1, ..Default::default() }.to_bytes()));
    }
    // ONE giant string per file (beyond 64 KiB and beyond 128 KiB: a writer growing its buffer in fixed steps, a
    // reader with a length cap): a dictionary comment, a tag name, a tag-model token, a word of 32767 four-byte characters
    for (name, n) in [("comment", 70_000usize), ("comment", 140_000), ("comment", 300_000), ("tag", 66_000), ("tag", 140_000), ("token", 140_000), ("word4", 32_767)] {
        let mut m = ModelSpec { char_window_size: 1, type_window_size: 1, bias: 3, ..Default::default() };
        m.char_ngram_model.push(NgramData { ngram: "a".into(), weights: vec![1, -1] });
        match name {
            "comment" => m.dict_model.push(WordWeightRecord { word: "語".into(), weights: vec![1, -1], comment: "c".repeat(n) }),
            "word4" => m.dict_model.push(WordWeightRecord { word: "𠀋".repeat(n), weights: { let mut w = vec![0; n + 1]; w[0] = 4; w[n] = -4; w }, comment: String::new() }),
            _ => {
                let mut tm = crate::c06::tag_model("a", &[2], &[crate::c06::TagNg::Char("a".into(), 0)], 0, 5);
                if name == "tag" {
                    tm.tags[0][1] = "t".repeat(n);
                } else {
                    tm.token = "k".repeat(n);
                }
                m.tag_models.push(tm);
            }
        }
        out.push((format!("giant-{name}-{n}"), m.to_bytes()));
    }
    // a file of several MB (300 000 dictionary records): decoded size in the tens of MB
    {
        let mut m = ModelSpec { char_window_size: 1, type_window_size: 1, bias: -2, ..Default::default() };
        m.char_ngram_model.push(NgramData { ngram: "a".into(), weights: vec![1, -1] });
        m.dict_model = (0..300_000usize).map(|i| { let mut k = i; let w: String = (0..6).map(|_| { let c = (b'c' + (k % 20) as u8) as char; k /= 20; c }).collect(); WordWeightRecord { word: w, weights: vec![(i % 7) as i32 - 3; 7], comment: String::new() } }).collect();
        out.push(("300000-dictionary-records".into(), m.to_bytes()));
    }
    // one long vector per file (dictionary words of 255..1024 characters, window 255, 256/512/600 tag candidates)
    for (d, spec, _) in crate::c01::long_vector_family(Tier::Quick).into_iter().step_by(tier.pick(3, 1)) {
        out.push((d, spec.to_bytes()));
    }
    // many entries of one kind (1024/1025/4097 dictionary records, character n-grams, type n-grams; 5000 tag models)
    for (d, spec) in crate::c01::many_entries_family(Tier::Quick) {
        out.push((d, spec.to_bytes()));
    }
    for (d, spec) in crate::c06::scale_tag_family(5000).into_iter().take(2) {
        out.push((d, spec.to_bytes()));
    }
    match std::fs::read("/repo/resources/model.bin") {
        Ok(b) => out.push(("resources/model.bin".into(), b)),
        Err(e) => machinery_error(&format!("/repo/resources/model.bin: {e}")),
    }
    if let Ok(z) = std::fs::read("/repo/vaporetto_tantivy/test_model/model.zst") {
        if let Ok(b) = zstd::decode_all(&z[..]) {
            if tier == Tier::Thorough || b.len() < 4000 {
                out.push(("vaporetto_tantivy/test_model/model.zst".into(), b));
            }
        }
    }
    out
}

pub fn ops_for(len: usize, tier: Tier) -> Vec<Value> {
    let mut ops = vec![json!({"op": "roundtrip"}), json!({"op": "predict"})];
    for c in [1usize, 2, 7, 1 << 20] {
        ops.push(json!({"op": "read-chunked", "k": c}));
    }
    for c in [1usize, 7, 1 << 20] {
        ops.push(json!({"op": "read-sequence", "k": c}));
    }
    for t in 0..4 {
        ops.push(json!({"op": "tail", "k": t}));
    }
    if len > 9_000 {
        // large files: round trips and tails only, plus a sparse set of truncation points
        for k in (0..len).step_by(len / 40 + 1) {
            ops.push(json!({"op": "prefix-slice", "k": k}));
            ops.push(json!({"op": "prefix-read", "k": k}));
        }
        return ops;
    }
    for k in 0..len {
        ops.push(json!({"op": "prefix-slice", "k": k}));
        ops.push(json!({"op": "prefix-read", "k": k}));
    }
    for pos in 0..MAGIC.len() {
        let vals: Vec<usize> = if tier == Tier::Thorough { (0..256).collect() } else { (0..256).step_by(1).collect() };
        for val in vals {
            ops.push(json!({"op": "header-slice", "k": pos * 256 + val}));
            ops.push(json!({"op": "header-read", "k": pos * 256 + val}));
        }
    }
    for k in 0..=len {
        for fault in 0..4 {
            for chunk in [1usize, 5, 1 << 20] {
                ops.push(json!({"op": "read-fault", "k": k, "fault": fault, "chunk": chunk}));
                ops.push(json!({"op": "write-fault", "k": k, "fault": fault, "chunk": chunk}));
            }
        }
    }
    ops
}

/// Round trip of a model with `n` one-character dictionary entries through slice and reader.
pub fn check_huge(n: usize) -> Option<(String, String)> {
    let spec = ModelSpec {
        dict_model: (0..n).map(|i| WordWeightRecord { word: char::from_u32(0x4e00 + (i % 20000) as u32).unwrap().to_string(), weights: vec![(i % 7) as i32 - 3, 1], comment: String::new() }).collect(),
        char_window_size: 1,
        type_window_size: 1,
        ..Default::default()
    };
    let bytes = spec.to_bytes();
    drop(spec);
    let r = guard(|| {
        let (m, rest) = Model::read_slice(&bytes).map_err(|e| format!("read_slice rejected the serialisation of a {n}-entry model ({} bytes): {e}", bytes.len()))?;
        if !rest.is_empty() {
            return Err("rest not empty".to_string());
        }
        if m.to_vec().map_err(|e| e.to_string())? != bytes {
            return Err("to_vec(read_slice(b)) != b".to_string());
        }
        drop(m);
        let m2 = Model::read(&bytes[..]).map_err(|e| format!("read rejected the serialisation of a {n}-entry model: {e}"))?;
        let mut w = Vec::with_capacity(bytes.len());
        m2.write(&mut w).map_err(|e| e.to_string())?;
        if w != bytes {
            return Err("write(read(b)) != b".to_string());
        }
        Ok::<(), String>(())
    });
    match r {
        Err(p) => Some(("huge-panic".into(), p)),
        Ok(Err(e)) => Some(("huge-roundtrip".into(), e)),
        Ok(Ok(())) => None,
    }
}

pub fn replay(c: &Value) -> Option<(String, String)> {
    if let Some(n) = c["huge"].as_u64() {
        return check_huge(n as usize).map(|(k, w)| (format!("{k} model=huge-4M-dictionary-entries"), w));
    }
    let b: Vec<u8> = serde_json::from_value(c["bytes"].clone()).ok()?;
    let name = c["model"].as_str()?;
    check_case(&b, &c["op"]).map(|(k, w)| (format!("{k} model={name} op={}", c["op"]), w))
}

pub fn run(tier: Tier) -> ! {
    let chk = Check::new("C07", tier, "fault_enumeration");
    quiet_panics();
    let pool = model_pool(tier);
    chk.set("models", json!(pool.len()));
    chk.set("model_sizes", json!(pool.iter().map(|(_, b)| b.len()).collect::<Vec<_>>()));
    // histories first, SEQUENTIALLY on this thread: a failing write / read at every byte position (kinds Err and
    // Ok(0)) followed by a complete write and read. If the library keeps state across calls, everything
    // below would observe non-replayable mixtures, so a finding here ends the run.
    {
        let mut n = 0u64;
        for (name, b) in pool.iter().filter(|(_, b)| b.len() <= 400).take(tier.pick(4, 12)) {
            for k in 0..b.len() {
                for fault in [0u8, 1] {
                    for which in ["write-after-fault", "read-after-fault"] {
                        let op = json!({"op": which, "k": k, "fault": fault});
                        n += 1;
                        chk.eval(1);
                        chk.nontrivial(1);
                        if let Some((kd, what)) = check_case(b, &op) {
                            chk.violation(format!("{kd} model={name} op={op}"), what, json!({"model": name, "bytes": b, "op": op}));
                        }
                    }
                }
            }
        }
        chk.set("after_fault_histories", json!(n));
        if chk.n_violations() > 0 {
            chk.finish("failing write / read followed by a complete one (sequential histories); the parallel sweep was skipped because these already failed", false, &replay);
        }
    }
    pool.par_iter().for_each(|(name, b)| {
        // the pool itself must be well-formed for the mirror (machinery self-check)
        if ModelSpec::from_bytes(b).is_err() {
            machinery_error(&format!("pool model {name} does not decode in the mirror"));
        }
        let ops = ops_for(b.len(), tier);
        ops.par_iter().for_each(|op| {
            chk.eval(1);
            if op["op"] != "roundtrip" && op["op"] != "predict" {
                chk.nontrivial(1);
            }
            if let Some((k, what)) = check_case(b, op) {
                // class-level signature; the case keeps the exact model and fault position
                chk.violation(format!("{k} model={name} op={op}"), what, json!({"model": name, "bytes": b, "op": op}));
            }
        });
    });
    // scale: one very large model (thorough only). Resource limits of the decoder (allocation /
    // size limits) depend on the number of entries, not on their content.
    if tier == Tier::Thorough {
        chk.eval(1);
        chk.nontrivial(1);
        if let Some((k, what)) = check_huge(4_000_000) {
            chk.violation(format!("{k} model=huge-4M-dictionary-entries"), what, json!({"huge": 4_000_000u64}));
        }
        chk.set("huge_model_entries", json!(4_000_000u64));
    }
    chk.sample(json!({"model": "resources/model.bin", "op": {"op": "prefix-slice", "k": 24}}));
    chk.sample(json!({"model": "varints", "op": {"op": "read-fault", "k": 100, "fault": 2, "chunk": 5}, "meaning": "reader delivers <=5 bytes per call and returns ErrorKind::Interrupted once after 100 bytes: reading must still succeed"}));
    chk.sample(json!({"model": "empty", "op": {"op": "write-fault", "k": 30, "fault": 1, "chunk": 1}, "meaning": "writer takes 1 byte per call and returns Ok(0) after 30 bytes: write must fail, bytes taken must be a prefix"}));
    chk.assume("bincode's standard configuration and std::io::Read::read_exact semantics (Interrupted is retried) are trusted");
    chk.finish(
        "histories (sequential): a write / read failing at EVERY byte position followed by a complete write and read of the same model; per model: round trip (slice, reader, writer), 4 reader chunkings, two models back to back in one stream (3 chunkings), 4 tails, EVERY proper prefix through read_slice and read, EVERY single-byte change of the 25 header bytes, a reader and a writer failing (Err / Ok(0) / Interrupted-once / transient-Err-once) at EVERY byte position with 3 chunk sizes; non-trivial = every fault or truncation case; distinct by construction",
        true,
        &replay,
    )
}
