//! C16 — normalisation keeps character positions; search tokens tile the original text.

mod golden;

use rayon::prelude::*;
use serde_json::{json, Value};
use tantivy::tokenizer::{TokenStream, Tokenizer};
use vaporetto::{CharacterBoundary, CharacterType, Model, Predictor, Sentence};
use vaporetto_rules::sentence_filters::{ConcatGraphemeClustersFilter, KyteaWsConstFilter, SplitLinebreaksFilter};
use vaporetto_rules::string_filters::KyteaFullwidthFilter;
use vaporetto_rules::{SentenceFilter, StringFilter};
use vaporetto_tantivy::VaporettoTokenizer;
use vp_check::gen;
use vp_check::report::*;

fn golden(c: char) -> char {
    golden::GOLDEN.iter().find(|(a, _)| *a == c).map_or(c, |(_, b)| *b)
}

fn norm(s: &str) -> Result<String, String> {
    guard(|| KyteaFullwidthFilter.filter(s))
}

fn check_char(c: char) -> Option<(String, String)> {
    let s = c.to_string();
    let f = match norm(&s) {
        Err(p) => return Some(("norm-panic".into(), format!("normaliser panicked on U+{:04X}: {p}", c as u32))),
        Ok(f) => f,
    };
    let mut it = f.chars();
    let (Some(fc), None) = (it.next(), it.next()) else {
        return Some(("norm-length".into(), format!("U+{:04X} maps to {} characters ({f:?})", c as u32, f.chars().count())));
    };
    if fc != golden(c) {
        return Some(("norm-table".into(), format!("U+{:04X} {c:?} maps to {fc:?}, the table says {:?}", c as u32, golden(c))));
    }
    match norm(&f) {
        Ok(ff) if ff == f => None,
        other => Some(("norm-idempotence".into(), format!("f(f({c:?})) = {other:?} but f({c:?}) = {f:?}"))),
    }
}

fn check_string(s: &str) -> Option<(String, String)> {
    let f = match norm(s) {
        Err(p) => return Some(("norm-panic".into(), p)),
        Ok(f) => f,
    };
    let want: String = s.chars().map(golden).collect();
    if f != want {
        return Some(("norm-string".into(), format!("f({s:?}) = {f:?}, character-wise table gives {want:?}")));
    }
    if f.chars().count() != s.chars().count() {
        return Some(("norm-length".into(), format!("f({s:?}) has {} characters, input {}", f.chars().count(), s.chars().count())));
    }
    match norm(&f) {
        Ok(ff) if ff == f => None,
        other => Some(("norm-idempotence".into(), format!("f(f({s:?})) = {other:?}"))),
    }
}

fn filters_for(wsconst: &str) -> Vec<Box<dyn SentenceFilter>> {
    let mut v: Vec<Box<dyn SentenceFilter>> = vec![Box::new(SplitLinebreaksFilter)];
    for c in wsconst.chars() {
        v.push(match c {
            'D' => Box::new(KyteaWsConstFilter::new(CharacterType::Digit)),
            'R' => Box::new(KyteaWsConstFilter::new(CharacterType::Roman)),
            'H' => Box::new(KyteaWsConstFilter::new(CharacterType::Hiragana)),
            'T' => Box::new(KyteaWsConstFilter::new(CharacterType::Katakana)),
            'K' => Box::new(KyteaWsConstFilter::new(CharacterType::Kanji)),
            'O' => Box::new(KyteaWsConstFilter::new(CharacterType::Other)),
            _ => Box::new(ConcatGraphemeClustersFilter),
        });
    }
    v
}

type Tok = (String, usize, usize, usize);

/// `consumer`: what the caller does with the token between two advance() calls, the way Tantivy's
/// token filters (LowerCaser, AsciiFoldingFilter, Stemmer) do through token_mut():
/// 0 nothing, 1 empties the text, 2 lengthens it, 3 replaces it by a shorter multi-byte string.
fn stream_with(tk: &mut VaporettoTokenizer, text: &str, consumer: u8) -> Result<Vec<Tok>, String> {
    guard(|| {
        let mut st = tk.token_stream(text);
        let mut out = vec![];
        while st.advance() {
            let t = st.token();
            out.push((t.text.clone(), t.offset_from, t.offset_to, t.position));
            match consumer {
                1 => st.token_mut().text.clear(),
                2 => st.token_mut().text.push_str("xé"),
                3 => st.token_mut().text = "é".to_string(),
                _ => {}
            }
            if out.len() > text.len() + 1000 {
                panic!("token stream does not terminate");
            }
        }
        out
    })
}

fn stream(tk: &mut VaporettoTokenizer, text: &str) -> Result<Vec<Tok>, String> {
    stream_with(tk, text, 0)
}

/// Tokens the core pipeline dictates (None when the pipeline rejects the text).
fn pipeline(pred: &Predictor, filters: &[Box<dyn SentenceFilter>], text: &str) -> Option<Vec<Tok>> {
    let pre = KyteaFullwidthFilter.filter(text);
    let mut s = Sentence::from_raw(pre).ok()?;
    pred.predict(&mut s);
    for f in filters {
        f.filter(&mut s);
    }
    let idx: Vec<usize> = text.char_indices().map(|(i, _)| i).chain(std::iter::once(text.len())).collect();
    let mut out = vec![];
    let mut start = 0;
    for (i, &b) in s.boundaries().iter().enumerate() {
        if b == CharacterBoundary::WordBoundary {
            out.push((text[idx[start]..idx[i + 1]].to_string(), idx[start], idx[i + 1], out.len()));
            start = i + 1;
        }
    }
    out.push((text[idx[start]..].to_string(), idx[start], text.len(), out.len()));
    Some(out)
}

fn check_stream(tk: &mut VaporettoTokenizer, pred: &Predictor, filters: &[Box<dyn SentenceFilter>], text: &str) -> Option<(String, String)> {
    let got = match stream(tk, text) {
        Err(p) => return Some(("stream-panic".into(), format!("token_stream({text:?}) panicked: {p}"))),
        Ok(g) => g,
    };
    // structural laws on the ORIGINAL text
    let mut pos = 0;
    for (k, (t, from, to, p)) in got.iter().enumerate() {
        if *from != pos || to <= from || *to > text.len() || !text.is_char_boundary(*from) || !text.is_char_boundary(*to) {
            return Some(("stream-tiling".into(), format!("token {k} spans {from}..{to} after {pos} in a text of {} bytes ({text:?})", text.len())));
        }
        if &text[*from..*to] != t {
            return Some(("stream-text".into(), format!("token {k} text {t:?} != original substring {:?}", &text[*from..*to])));
        }
        if *p != k {
            return Some(("stream-position".into(), format!("token {k} has position {p}")));
        }
        pos = *to;
    }
    if pos != text.len() {
        return Some(("stream-tiling".into(), format!("tokens end at byte {pos} of {} ({text:?})", text.len())));
    }
    // a consumer that rewrites token.text in place (as Tantivy's token filters do) sees the same tokens
    for consumer in 1..=3u8 {
        match stream_with(tk, text, consumer) {
            Err(p) => return Some(("stream-consumer-panic".into(), format!("token_stream({text:?}) panicked when the consumer rewrites token.text (mode {consumer}): {p}"))),
            Ok(g) => {
                if g != got {
                    return Some(("stream-consumer".into(), format!("text {text:?}: a consumer rewriting token.text (mode {consumer}) sees {g:?} instead of {got:?}")));
                }
            }
        }
    }
    if text.is_empty() {
        return if got.is_empty() { None } else { Some(("stream-empty".into(), format!("empty text produced {got:?}"))) };
    }
    if let Some(want) = pipeline(pred, filters, text) {
        if got != want {
            return Some(("stream-breaks".into(), format!("text {text:?}: stream {:?}, core pipeline {:?}", got.iter().map(|t| (t.1, t.2)).collect::<Vec<_>>(), want.iter().map(|t| (t.1, t.2)).collect::<Vec<_>>())));
        }
    }
    None
}

fn models() -> Vec<(String, Vec<u8>)> {
    let mut out = vec![];
    let z = std::fs::read("/repo/vaporetto_tantivy/test_model/model.zst").unwrap_or_else(|e| machinery_error(&format!("test model: {e}")));
    out.push(("tantivy-test-model".to_string(), zstd_decode(&z)));
    out.push(("resources/model.bin".to_string(), std::fs::read("/repo/resources/model.bin").unwrap_or_else(|e| machinery_error(&e.to_string()))));
    out.push(("generated-plain".to_string(), vp_check::bfs::model_plain().to_bytes()));
    let mut m = vp_check::bfs::model_plain();
    m.bias = 3; // breaks almost everywhere
    m.char_ngram_model.push(vp_check::mirror::NgramData { ngram: "ａ".into(), weights: vec![-9, -9, -9, -9] });
    m.char_ngram_model.push(vp_check::mirror::NgramData { ngram: "−".into(), weights: vec![0, 5, -20, 0] });
    out.push(("generated-fullwidth".to_string(), m.to_bytes()));
    out
}

fn zstd_decode(z: &[u8]) -> Vec<u8> {
    zstd::decode_all(z).unwrap_or_else(|e| machinery_error(&format!("cannot decode the Tantivy test model: {e}")))
}

fn replay(c: &Value) -> Option<(String, String)> {
    match c["kind"].as_str()? {
        "char" => {
            let ch = char::from_u32(c["c"].as_u64()? as u32)?;
            check_char(ch).map(|(k, w)| (format!("{k} U+{:04X}", ch as u32), w))
        }
        "string" => {
            let s = c["s"].as_str()?;
            check_string(s).map(|(k, w)| (format!("{k} s={s:?}"), w))
        }
        "stream-de" => {
            let bytes: Vec<u8> = serde_json::from_value(c["model"].clone()).ok()?;
            let ws = c["wsconst"].as_str()?;
            let name = c["name"].as_str()?;
            let text = c["text"].as_str()?;
            let pred = Predictor::new(Model::read_slice(&bytes).ok()?.0, false).ok()?;
            let mut ser = pred.serialize_to_vec().ok()?;
            ser.extend_from_slice(b"TAIL");
            let ser: &'static [u8] = Box::leak(ser.into_boxed_slice());
            let class = if text.contains('\0') { "text-with-NUL".to_string() } else { format!("text={text:?}") };
            match guard(|| unsafe { VaporettoTokenizer::deserialize_unchecked(ser, ws) }.map(|(t, rest)| (t, rest.to_vec())).map_err(|e| e.to_string())) {
                Err(p) => Some((format!("deserialize-panic model={name} wsconst={ws:?}"), p)),
                Ok(Err(e)) => Some((format!("deserialize-err model={name} wsconst={ws:?}"), e)),
                Ok(Ok((mut tk, rest))) => {
                    if rest != b"TAIL" {
                        return Some((format!("deserialize-rest model={name} wsconst={ws:?}"), format!("rest of {} bytes", rest.len())));
                    }
                    check_stream(&mut tk, &pred, &filters_for(ws), text).map(|(k, w)| (format!("{k}-deserialized model={name} wsconst={ws:?} {class}"), w))
                }
            }
        }
        "stream-history" => {
            let bytes: Vec<u8> = serde_json::from_value(c["model"].clone()).ok()?;
            let ws = c["wsconst"].as_str()?;
            let name = c["name"].as_str()?;
            let first = c["first"].as_str()?;
            let text = c["text"].as_str()?;
            let mut tk = VaporettoTokenizer::new(Model::read_slice(&bytes).ok()?.0, ws).ok()?;
            let pred = Predictor::new(Model::read_slice(&bytes).ok()?.0, false).ok()?;
            let _ = stream(&mut tk, first);
            check_stream(&mut tk, &pred, &filters_for(ws), text).map(|(k, w)| (format!("{k} model={name} wsconst={ws:?} after={first:?} text={text:?}"), w))
        }
        _ => {
            let bytes: Vec<u8> = serde_json::from_value(c["model"].clone()).ok()?;
            let ws = c["wsconst"].as_str()?;
            let text = c["text"].as_str()?;
            let name = c["name"].as_str()?;
            let mut tk = VaporettoTokenizer::new(Model::read_slice(&bytes).ok()?.0, ws).ok()?;
            let pred = Predictor::new(Model::read_slice(&bytes).ok()?.0, false).ok()?;
            let class = if text.contains('\0') { "text-with-NUL".to_string() } else { format!("text={text:?}") };
            check_stream(&mut tk, &pred, &filters_for(ws), text).map(|(k, w)| (format!("{k} model={name} wsconst={ws:?} {class}"), w))
        }
    }
}

fn main() {
    let args: Vec<String> = std::env::args().collect();
    if args.len() >= 3 && args[1] == "replay" {
        let v: Value = serde_json::from_str(&std::fs::read_to_string(&args[2]).unwrap()).unwrap();
        quiet_panics();
        match replay(&v["case"]) {
            Some((sig, what)) => {
                println!("VIOLATION property=C16 replay={}\n  what: {what} [{sig}]", args[2]);
                std::process::exit(1);
            }
            None => {
                println!("replay: property C16 holds on this case");
                std::process::exit(0);
            }
        }
    }
    let tier = if args.get(2).map(|s| s.as_str()) == Some("thorough") { Tier::Thorough } else { Tier::Quick };
    let chk = Check::new("C16", tier, "exploration");
    quiet_panics();
    // Part 1a: all Unicode scalar values
    (0u32..=0x10FFFF).into_par_iter().for_each(|u| {
        if let Some(c) = char::from_u32(u) {
            chk.eval(1);
            if golden(c) != c {
                chk.nontrivial(1);
            }
            if let Some((k, what)) = check_char(c) {
                chk.violation(format!("{k} U+{u:04X}"), what, json!({"kind": "char", "c": u}));
            }
        }
    });
    chk.set("unicode_scalar_values", json!(1_112_064u64));
    // Part 1b: strings over 8 table and 4 non-table characters
    let sigma = ['a', 'Z', '0', '-', '.', '｡', '－', '"', 'あ', 'ａ', '\0', '𠀋'];
    let strings = gen::strings(&sigma, 0, tier.pick(3, 4));
    strings.par_iter().for_each(|s| {
        let s = gen::s(s);
        chk.eval(1);
        chk.nontrivial(1);
        if let Some((k, what)) = check_string(&s) {
            chk.violation(format!("{k} s={s:?}"), what, json!({"kind": "string", "s": s}));
        }
    });
    // Part 2: token stream
    let tsigma = ['a', '1', 'A', 'あ', '亜', '-', '\r', '\n', '\u{200d}', '👨', '𠀋', '\0'];
    let texts: Vec<String> = gen::strings(&tsigma, 0, tier.pick(4, 5)).iter().map(|t| gen::s(t)).collect();
    // plus long texts (40 and 150 characters): rotations of the alphabet (NUL excluded) and runs
    let mut texts = texts;
    for rot in 0..tsigma.len() - 1 {
        for len in [40usize, 150] {
            texts.push((0..len).map(|i| tsigma[(i * (rot + 1) + rot) % (tsigma.len() - 1)]).collect());
        }
    }
    // threshold lengths (u8, 1 KiB; thorough also 4 KiB and u16 in characters AND in bytes): offsets are counted in
    // bytes of 1-4-byte characters, so both counts cross the sizes
    for len in tier.pick(vec![255usize, 256, 257, 1025, 4097, 9000], vec![255, 256, 257, 1025, 4097, 9000, 16385, 21846, 65535, 65537]) {
        texts.push((0..len).map(|i| tsigma[(i * 5 + i / 9) % (tsigma.len() - 1)]).collect());
        // a fixed scrambled sequence: every adjacent pair and triple of the alphabet occurs many times (CR LF,
        // LF LF, dash next to a line break, ...), which no rotation gives
        texts.push((0..len).map(|i| tsigma[(gen::mix(i as u64) % (tsigma.len() as u64 - 1)) as usize]).collect());
        texts.push((0..len).map(|i| ['a', 'あ'][(i / 3) % 2]).collect());
        texts.push(std::iter::repeat('a').take(len).collect());
    }
    // second alphabet: characters the normaliser changes WITHOUT leaving the 3-byte range (dash and
    // tilde look-alikes, half-width CJK punctuation and katakana) next to katakana / hiragana, so that
    // the character TYPE seen by the wsconst filters depends on normalisation having happened
    for t in gen::strings(&['ラ', '－', '―', '～', 'あ', '｡', 'ｶ', '–'], 1, tier.pick(3, 4)) {
        texts.push(gen::s(&t));
    }
    // third alphabet: the first and the last scalar value of EVERY UTF-8 lead byte (0xC2..=0xF4), so that every
    // byte-length class and every lead-byte pattern takes part in the character-position -> byte-offset mapping
    // (thorough: every scalar value, in one context)
    {
        let mut by_lead: std::collections::BTreeMap<u8, (char, char)> = std::collections::BTreeMap::new();
        for c in (0x80u32..=0x10FFFF).filter_map(char::from_u32) {
            let mut buf = [0u8; 4];
            let lead = c.encode_utf8(&mut buf).as_bytes()[0];
            by_lead.entry(lead).and_modify(|e| e.1 = c).or_insert((c, c));
        }
        for (_, (first, last)) in by_lead {
            for c in [first, last] {
                for t in [vec![c], vec!['a', c], vec![c, 'a'], vec![c, c, 'あ'], vec!['𠀋', c, '1', c]] {
                    texts.push(gen::s(&t));
                }
            }
        }
    }
    let wss: Vec<String> = gen::strings(&['D', 'R', 'H', 'T', 'K', 'O', 'G'], 0, tier.pick(2, 3)).iter().map(|t| gen::s(t)).collect();
    chk.set("stream_texts", json!(texts.len()));
    chk.set("wsconst_strings", json!(wss.len()));
    let ms = models();
    chk.set("models", json!(ms.iter().map(|m| m.0.clone()).collect::<Vec<_>>()));
    let jobs: Vec<(usize, &String)> = ms.iter().enumerate().flat_map(|(i, _)| wss.iter().map(move |w| (i, w))).collect();
    jobs.par_iter().for_each(|(mi, ws)| {
        let (name, bytes) = &ms[*mi];
        let mk = || Model::read_slice(bytes).unwrap_or_else(|e| machinery_error(&format!("{name}: {e}"))).0;
        let tk0 = match guard(|| VaporettoTokenizer::new(mk(), ws)) {
            Ok(Ok(t)) => t,
            Ok(Err(e)) => machinery_error(&format!("VaporettoTokenizer::new({name}, {ws:?}): {e}")),
            Err(p) => machinery_error(&format!("VaporettoTokenizer::new panicked: {p}")),
        };
        let pred = Predictor::new(mk(), false).unwrap_or_else(|e| machinery_error(&e.to_string()));
        let filters = filters_for(ws);
        // the second constructor: a tokenizer deserialised from the serialised predictor (+ a tail that must come back)
        let ser = pred.serialize_to_vec().unwrap_or_else(|e| machinery_error(&e.to_string()));
        let mut ser_tail = ser.clone();
        ser_tail.extend_from_slice(b"TAIL");
        let ser_tail: &'static [u8] = Box::leak(ser_tail.into_boxed_slice());
        let tk_de = match guard(|| unsafe { VaporettoTokenizer::deserialize_unchecked(ser_tail, ws) }.map(|(t, rest)| (t, rest.to_vec())).map_err(|e| e.to_string())) {
            Ok(Ok((t, rest))) => {
                if rest != b"TAIL" {
                    chk.violation(format!("deserialize-rest model={name} wsconst={ws:?}"), format!("deserialize_unchecked returned a rest of {} bytes instead of the 4 trailing bytes", rest.len()), json!({"kind": "stream-de", "name": name, "model": bytes, "wsconst": ws, "text": "a"}));
                }
                Some(t)
            }
            Ok(Err(e)) => {
                chk.violation(format!("deserialize-err model={name} wsconst={ws:?}"), format!("deserialize_unchecked rejected a self-produced predictor: {e}"), json!({"kind": "stream-de", "name": name, "model": bytes, "wsconst": ws, "text": "a"}));
                None
            }
            Err(p) => {
                chk.violation(format!("deserialize-panic model={name} wsconst={ws:?}"), p, json!({"kind": "stream-de", "name": name, "model": bytes, "wsconst": ws, "text": "a"}));
                None
            }
        };
        // every model sees every text with the short wsconst strings; long ones rotate over texts
        let stride = if ws.len() <= 1 || tier == Tier::Thorough && ws.len() <= 2 { 1 } else { tier.pick(7, 5) };
        for text in texts.iter().skip(ws.len() % stride).step_by(stride) {
            chk.eval(1);
            if text.chars().count() >= 2 {
                chk.nontrivial(1);
            }
            // a pristine clone per text (replayable); tokenizer reuse is the business of the history family
            let mut tk = tk0.clone();
            if let Some((k, what)) = check_stream(&mut tk, &pred, &filters, text) {
                // class-level signature: NUL-bearing texts are one class
                let class = if text.contains('\0') { "text-with-NUL".to_string() } else { format!("text={text:?}") };
                chk.violation(format!("{k} model={name} wsconst={ws:?} {class}"), what, json!({"kind": "stream", "name": name, "model": bytes, "wsconst": ws, "text": text}));
            }
            if let Some(t0) = &tk_de {
                chk.eval(1);
                let mut tk = t0.clone();
                if let Some((k, what)) = check_stream(&mut tk, &pred, &filters, text) {
                    let class = if text.contains('\0') { "text-with-NUL".to_string() } else { format!("text={text:?}") };
                    chk.violation(format!("{k}-deserialized model={name} wsconst={ws:?} {class}"), format!("tokenizer from deserialize_unchecked: {what}"), json!({"kind": "stream-de", "name": name, "model": bytes, "wsconst": ws, "text": text}));
                }
            }
        }
    });
    // thorough: every Unicode scalar value between two ordinary characters, one generated model, two wsconst strings
    if tier == Tier::Thorough {
        let (name, bytes) = ms.iter().find(|m| m.0 == "generated-plain").unwrap_or(&ms[0]);
        for ws in ["", "G"] {
            let mk = || Model::read_slice(bytes).unwrap_or_else(|e| machinery_error(&format!("{name}: {e}"))).0;
            let tk0 = VaporettoTokenizer::new(mk(), ws).unwrap_or_else(|e| machinery_error(&e.to_string()));
            let pred = Predictor::new(mk(), false).unwrap_or_else(|e| machinery_error(&e.to_string()));
            let filters = filters_for(ws);
            (1u32..=0x10FFFF).into_par_iter().for_each(|u| {
                let Some(c) = char::from_u32(u) else { return };
                let text = gen::s(&['a', c, 'あ']);
                chk.eval(1);
                chk.nontrivial(1);
                let mut tk = tk0.clone();
                if let Some((k, what)) = check_stream(&mut tk, &pred, &filters, &text) {
                    chk.violation(format!("{k} model={name} wsconst={ws:?} text={text:?}"), what, json!({"kind": "stream", "name": name, "model": bytes, "wsconst": ws, "text": text}));
                }
            });
        }
    }
    // histories on ONE tokenizer: every ordered pair of texts over half-width / full-width spellings of the
    // same characters (equal after normalisation, different byte lengths), the second text checked in full
    // right after the first was streamed (a tokenizer is documented to be reusable)
    {
        let hs: Vec<String> = gen::strings(&['a', 'ａ', '1', '１', 'あ'], 0, tier.pick(3, 4)).iter().map(|t| gen::s(t)).collect();
        chk.set("history_texts", json!(hs.len()));
        let hjobs: Vec<(usize, &str)> = ms.iter().enumerate().flat_map(|(i, _)| ["", "D", "RD"].into_iter().map(move |w| (i, w))).collect();
        hjobs.par_iter().for_each(|(mi, ws)| {
            let (name, bytes) = &ms[*mi];
            let mk = || Model::read_slice(bytes).unwrap_or_else(|e| machinery_error(&format!("{name}: {e}"))).0;
            // every history starts from a pristine clone of a tokenizer that has never streamed anything
            let tk0 = VaporettoTokenizer::new(mk(), ws).unwrap_or_else(|e| machinery_error(&e.to_string()));
            let pred = Predictor::new(mk(), false).unwrap_or_else(|e| machinery_error(&e.to_string()));
            let filters = filters_for(ws);
            for (i, first) in hs.iter().enumerate() {
                for (j, text) in hs.iter().enumerate() {
                    // thorough: all pairs; quick: all pairs of texts up to 2 characters, a third of the rest
                    if tier == Tier::Quick && (first.chars().count() > 2 || text.chars().count() > 2) && (i + j) % 3 != 0 {
                        continue;
                    }
                    chk.eval(1);
                    chk.nontrivial(1);
                    let mut tk = tk0.clone();
                    let _ = stream(&mut tk, first);
                    if let Some((k, what)) = check_stream(&mut tk, &pred, &filters, text) {
                        chk.violation(format!("{k} model={name} wsconst={ws:?} after={first:?} text={text:?}"), format!("on a tokenizer that had just streamed {first:?}: {what}"), json!({"kind": "stream-history", "name": name, "model": bytes, "wsconst": ws, "first": first, "text": text}));
                    }
                }
            }
        });
    }
    chk.sample(json!({"kind": "stream", "model": "tantivy-test-model", "wsconst": "DG", "text": "a1\r\n👨"}));
    chk.sample(json!({"kind": "char", "c": "U+FF0D", "expected": "ー"}));
    chk.assume("golden table: a copy of the 96 KyTea mappings taken from the pinned commit (harness/vp-tantivy/src/golden.rs)");
    chk.assume("for texts the core pipeline rejects (NUL) only the structural laws (tiling, substrings, positions, no panic) are required");
    let replay_fn = |c: &Value| replay(c);
    chk.finish(
        "normaliser: all 1 112 064 Unicode scalar values (one character out, golden table or identity, idempotent) and all strings up to the bound over 8 table + 4 non-table characters; token stream: 4 models x texts up to the bound over {a,1,A,あ,亜,-,CR,LF,ZWJ,👨,𠀋,NUL} and the empty text x wsconst strings over {D,R,H,T,K,O,G} (all texts for short wsconst strings, a rotating 1/7 resp. 1/5 of the texts for the longest); tokens must tile the original text on character boundaries with original substrings and consecutive positions, and break exactly where normalise+predict+line-break filter+configured filters break; consumers rewriting token.text see the same tokens; every ordered pair of texts over half-/full-width spellings streamed back to back on one tokenizer; every text also through a tokenizer built by deserialize_unchecked from the serialised predictor; non-trivial = table character / text of >= 2 characters; distinct by construction",
        true,
        &replay_fn,
    )
}
