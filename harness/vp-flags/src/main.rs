fn main(){}
