//! C13 worker: links vaporetto with exactly the cargo features it was built with, reads
//! (model, texts) cases from a file and prints scores / boundaries / tags per text.
//!
//! input lines:  "M <hex model bytes>"  then  "T <text>" lines for that model
//! output lines: "M" | "E <predictor error>" | "P <panic>" ; per text "S <scores>|<labels>|<n_tags>|<tags>"

use std::io::{BufRead, BufWriter, Write};
use vaporetto::{Model, Predictor, Sentence};

fn unhex(s: &str) -> Vec<u8> {
    (0..s.len() / 2).map(|i| u8::from_str_radix(&s[2 * i..2 * i + 2], 16).unwrap()).collect()
}

fn main() {
    let args: Vec<String> = std::env::args().collect();
    let inp = std::io::BufReader::new(std::fs::File::open(&args[1]).expect("input"));
    let mut out = BufWriter::new(std::fs::File::create(&args[2]).expect("output"));
    std::panic::set_hook(Box::new(|_| {}));
    let with_tags = cfg!(feature = "tag-prediction");
    let mut pred: Option<Predictor> = None;
    // the same predictor after a serialise / deserialise round trip under THIS feature set
    let mut pred_rt: Option<Predictor> = None;
    for line in inp.lines() {
        let line = line.unwrap();
        if let Some(h) = line.strip_prefix("M ") {
            let bytes = unhex(h);
            let r = std::panic::catch_unwind(|| {
                let (m, _) = Model::read_slice(&bytes).map_err(|e| format!("{e}"))?;
                // the model file format does not depend on the feature set either: re-serialising what was
                // read gives the same bytes in every build
                if m.to_vec().map_or(true, |v| v != bytes) {
                    return Err("model-bytes-differ-after-reread".to_string());
                }
                Predictor::new(m, with_tags).map_err(|e| format!("{e}"))
            });
            pred = None;
            pred_rt = None;
            match r {
                Ok(Ok(p)) => {
                    pred_rt = std::panic::catch_unwind(std::panic::AssertUnwindSafe(|| {
                        let b = p.serialize_to_vec().ok()?;
                        unsafe { Predictor::deserialize_from_slice_unchecked(&b) }.ok().map(|x| x.0)
                    }))
                    .ok()
                    .flatten();
                    pred = Some(p);
                    writeln!(out, "M").unwrap();
                }
                Ok(Err(e)) => writeln!(out, "E {e}").unwrap(),
                Err(_) => writeln!(out, "P Predictor::new panicked").unwrap(),
            }
        } else if let Some(t) = line.strip_prefix("T ") {
            let Some(p) = pred.as_ref() else {
                writeln!(out, "S -").unwrap();
                continue;
            };
            let run = |p: &Predictor| std::panic::catch_unwind(std::panic::AssertUnwindSafe(|| {
                let mut s = Sentence::from_raw(t.to_string()).unwrap();
                p.predict(&mut s);
                #[cfg(feature = "tag-prediction")]
                s.fill_tags();
                let scores: Vec<String> = s.boundary_scores().iter().map(|x| x.to_string()).collect();
                let labels: String = s.boundaries().iter().map(|&b| char::from(b'0' + b as u8)).collect();
                let tags: Vec<String> = s.tags().iter().map(|t| t.as_ref().map_or("-".to_string(), |t| t.to_string())).collect();
                format!("S {}|{}|{}|{}", scores.join(","), labels, s.n_tags(), tags.join(","))
            }));
            let l1 = run(p).unwrap_or_else(|_| "S panic".to_string());
            let l2 = pred_rt.as_ref().map_or("S no-round-trip".to_string(), |p| run(p).unwrap_or_else(|_| "S panic".to_string()));
            if l1 == l2 {
                writeln!(out, "{l1}").unwrap();
            } else {
                writeln!(out, "S round-trip-differs direct=[{l1}] deserialised=[{l2}]").unwrap();
            }
        }
    }
    out.flush().unwrap();
}
