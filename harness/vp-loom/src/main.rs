//! C08c — loom model checking of mid-call interleavings.
//!
//! `tools/loomprep.sh` copies the vaporetto crate and rewrites the paths of the synchronisation
//! primitives loom can model (atomics, Mutex, RwLock, Condvar) to loom's. This binary then runs
//! loom models in which 2 (and 3) threads share ONE never-used predictor and each does
//! `predict; fill_tags` on its own sentence; loom explores every interleaving of the intercepted
//! operations up to its pre-emption bound, and every thread's observation must equal the
//! sequential one. On a tree without such primitives the exploration is trivial (reported).
//!
//! prints: LOOM models=<n> executions=<n> sync_sites=<n> result=ok|violation|error [detail]

use std::sync::atomic::{AtomicU64, Ordering};
use vaporetto_loom::{Model, Predictor, Sentence};

type Obs = (Vec<i32>, Vec<u8>, usize, Vec<Option<String>>);

fn run(p: &Predictor, text: &str) -> Obs {
    let mut s = Sentence::from_raw(text.to_string()).unwrap();
    p.predict(&mut s);
    s.fill_tags();
    (s.boundary_scores().to_vec(), s.boundaries().iter().map(|&b| b as u8).collect(), s.n_tags(), s.tags().iter().map(|t| t.as_ref().map(|t| t.to_string())).collect())
}

static EXECUTIONS: AtomicU64 = AtomicU64::new(0);

fn main() {
    let sync_sites: u64 = std::fs::read_to_string("/verif/target/loom-src/sync_sites").ok().and_then(|s| s.trim().parse().ok()).unwrap_or(0);
    let specs = [vp_check::bfs::model_tags2().to_bytes(), vp_check::bfs::model_tags1().to_bytes()];
    let text_sets: Vec<Vec<&str>> = vec![vec!["abab", "a"], vec!["あaあa𠀋b", "ab a"], vec!["a", "abab", "ba"]];
    let mut models = 0u64;
    let result = std::panic::catch_unwind(|| {
        let mut models_run = 0u64;
        for bytes in &specs {
            for texts in &text_sets {
                // sequential expectations: one fresh predictor per text, inside its own trivial model
                // (loom primitives may only be used inside a model)
                let expected: std::sync::Arc<std::sync::Mutex<Vec<Obs>>> = Default::default();
                {
                    let (bytes, texts, expected) = (bytes.clone(), texts.clone(), expected.clone());
                    loom::model(move || {
                        let mut v = vec![];
                        for t in &texts {
                            let p = Predictor::new(Model::read_slice(&bytes).unwrap().0, true).unwrap();
                            v.push(run(&p, t));
                        }
                        *expected.lock().unwrap() = v;
                    });
                }
                let expected = expected.lock().unwrap().clone();
                let (bytes, texts) = (bytes.clone(), texts.clone());
                let mut b = loom::model::Builder::new();
                b.preemption_bound = Some(3);
                b.max_branches = 100_000;
                b.check(move || {
                    EXECUTIONS.fetch_add(1, Ordering::Relaxed);
                    // ONE never-used predictor shared by all threads
                    let p = loom::sync::Arc::new(Predictor::new(Model::read_slice(&bytes).unwrap().0, true).unwrap());
                    let hs: Vec<_> = texts
                        .iter()
                        .map(|t| {
                            let p = p.clone();
                            let t = t.to_string();
                            loom::thread::spawn(move || run(&p, &t))
                        })
                        .collect();
                    for (h, want) in hs.into_iter().zip(&expected) {
                        let got = h.join().unwrap();
                        assert_eq!(&got, want, "a thread sharing a never-used predictor observed a different result than alone");
                    }
                });
                models_run += 1;
            }
        }
        models_run
    });
    match result {
        Ok(n) => {
            models = n;
            println!("LOOM models={models} executions={} sync_sites={sync_sites} result=ok", EXECUTIONS.load(Ordering::Relaxed));
        }
        Err(p) => {
            let msg = p.downcast_ref::<String>().cloned().or_else(|| p.downcast_ref::<&str>().map(|s| s.to_string())).unwrap_or_default();
            println!("LOOM models={models} executions={} sync_sites={sync_sites} result=violation {}", EXECUTIONS.load(Ordering::Relaxed), msg.lines().next().unwrap_or(""));
            std::process::exit(1);
        }
    }
}
