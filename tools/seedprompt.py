#!/usr/bin/env python3
"""usage: mkprompt.py <round> <ID> '<focus hint>'  -> writes /tmp/seedwork/prompt<round>-<ID>.txt"""
import json, sys, os, glob
rnd, pid, focus = sys.argv[1], sys.argv[2], sys.argv[3]
props = {json.loads(l)['id']: json.loads(l) for l in open('/verif/properties.jsonl')}
p = props[pid]
wt = f'/tmp/seedwork/wt{rnd}-{pid}'; out = f'/tmp/seedwork/out{rnd}-{pid}'
a = p['anchors']
mech = '; '.join(f"{m['name']} ({m['where']})" for m in a.get('mechanism', []))
state = '; '.join(f"{m['name']}: {m.get('meaning','')} ({m['where']})" for m in a.get('state', []))
earlier = sorted(os.path.basename(d) for d in glob.glob(f'/verif/seeded/{pid}*'))
earlier_txt = '; '.join(e.split('-', 1)[1].replace('-', ' ') for e in earlier)
txt = f"""You are helping to evaluate a verification effort for the open-source Rust project daac-tools/vaporetto (a pointwise-prediction Japanese word tokenizer). Your job: produce ONE realistic, subtle code change ("seeded defect") that BREAKS the semantic property below while the project still compiles and its existing test suite still passes.

## The property ({pid}: {p['title']})
Statement: {p['statement']}

Quantified over: {p['quantifier']['text']}

Why the existing tests cannot settle it: {p['why_tests_cant']}

Code the property is anchored in: files {', '.join(a['files'])}; mechanisms: {mech}{('; state: ' + state) if state else ''}; observable at: {', '.join(a.get('observe_at', []))}.

## Your workspace
- A private git worktree of the repository is at {wt} (already created, on a detached HEAD). Work ONLY there. Do NOT read or touch /repo or /verif — your change must be independent of any existing verification machinery.
- The sandbox is OFFLINE: always pass --offline to cargo (e.g. `cd {wt} && cargo test --workspace --offline`). No new crates can be fetched. The default target directory inside the worktree is fine.
- The baseline test command is: `cd {wt} && cargo test --workspace --no-fail-fast --offline` — all tests must still pass WITH your change.

## What to produce
1. A change to the library/tool source (not to tests) that violates the property. It should be the kind of mistake a maintainer could plausibly make in a refactoring or optimisation, and it should need something SPECIFIC to manifest — a particular multi-step sequence of operations, an unusual input or configuration, an edge position, two cooperating sites that each look fine alone, a particular fault or interleaving — NOT something that ordinary use or the existing tests would expose at once. Keep it small (typically 1-15 changed lines). Do not add obviously malicious code, special-casing of magic strings, or comments that give it away.
2. A demonstration: a small Rust test file or program (e.g. `{wt}/vaporetto/tests/seed_demo.rs`, or for CLI properties a shell script) that FAILS with your change and PASSES on the original code. Verify both directions yourself.
3. Write your results into the directory {out}/ (create it):
   - `patch.diff`  — output of `git diff` for the source change ONLY (without the demo file), applicable with `git apply` at the repository root;
   - the demonstration file(s), plus `RUN.md` with the exact commands to run the demo (including any cargo --features needed) and the observed outputs with and without the change;
   - `NOTES.md` — which clause of the property it breaks, what exactly is needed for it to manifest, and confirmation that `cargo test --workspace --no-fail-fast --offline` passes with the change (paste the summary lines).
4. Do not commit anything anywhere. The worktree will be deleted afterwards.

IMPORTANT additional constraints:
- Earlier seeded changes for this property were (one phrase each): {earlier_txt}. Produce something DIFFERENT from all of them: a different mechanism, preferably a different function or file among the anchored ones, manifesting under different conditions.
- Several agents work in sibling worktrees of the same repository at the same time: NEVER use `git stash` (the stash is shared between worktrees). To toggle your change use `git diff > {out}/patch.diff; git checkout -- <files>; git apply {out}/patch.diff`. Make sure patch.diff contains only your own change (no demo file).
- Focus for this round: {focus}

Be efficient: read the anchored code, pick one good change, verify both directions, write the files, and finish with a 5-line summary.
"""
open(f'/tmp/seedwork/prompt{rnd}-{pid}.txt', 'w').write(txt)
print(f'/tmp/seedwork/prompt{rnd}-{pid}.txt', len(txt))
