#!/bin/bash
# Copies /repo/vaporetto to /verif/target/loom-src/vaporetto_loom and rewrites the paths of the
# synchronisation primitives loom can model (atomics, Mutex, RwLock, Condvar) to their loom
# counterparts, so that a loom model can explore interleavings INSIDE calls of the real code.
# On the pinned tree the library uses none of them (the rewrite changes nothing).
set -eu
src=/repo/vaporetto
dst=/verif/target/loom-src/vaporetto_loom
mkdir -p "$dst"
rsync -a --delete --exclude target "$src/" "$dst/"
# count sync primitives before rewriting (reported as evidence)
n=$(grep -rEho '(core|std)::sync::atomic|std::sync::(Mutex|RwLock|Condvar)|Atomic(Bool|Usize|U8|U16|U32|U64|I32|I64|Isize|Ptr)' "$dst/src" | wc -l)
echo "$n" > /verif/target/loom-src/sync_sites
find "$dst/src" -name '*.rs' -print0 | xargs -0 sed -i -E \
  -e 's/\b(core|std)::sync::atomic\b/loom::sync::atomic/g' \
  -e 's/\bstd::sync::(Mutex|RwLock|Condvar)\b/loom::sync::\1/g' \
  -e 's/\bstd::sync::\{/loom::sync::{/g'
sed -i -E 's/^name = "vaporetto"$/name = "vaporetto_loom"/' "$dst/Cargo.toml"
# loom needs std
grep -q '^loom' "$dst/Cargo.toml" || sed -i -E 's/^\[dependencies\]$/[dependencies]\nloom = "0.7"/' "$dst/Cargo.toml"
cp /repo/README.md /verif/target/loom-src/README.md 2>/dev/null || true
