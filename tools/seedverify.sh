#!/bin/bash
# usage: tools/seedverify.sh <seed-dir> <worktree> [demo-dest-relative-path]
# Confirms an independently produced change: (1) demo passes on the clean tree, (2) with the patch the
# repository suite still passes, (3) with the patch the demo fails.
set -u
sd="$1"; wt="$2"; dest="${3:-vaporetto/tests/seed_demo.rs}"
cd "$wt" || exit 2
git checkout -q -- . ; git clean -qfd -e target -e Cargo.lock
cp /repo/Cargo.lock Cargo.lock 2>/dev/null
demo=$(ls "$sd"/*.rs 2>/dev/null | head -1)
pkg=$(echo "$dest" | cut -d/ -f1)
tname=$(basename "$dest" .rs)
mkdir -p "$(dirname "$dest")"; cp "$demo" "$dest"
echo "--- demo on the clean tree"
cargo test -p "$pkg" ${SEED_FEATURES:+--features "$SEED_FEATURES"} --test "$tname" --offline 2>&1 | grep -E "^test result|error\[" | head -3
echo "--- applying patch"
git apply "$sd/patch.diff" || { echo "PATCH DOES NOT APPLY"; exit 1; }
rm -f "$dest"
echo "--- repository suite with the patch"
cargo test --workspace --no-fail-fast --offline 2>&1 | grep -E "^test result" | awk '{p+=$4; f+=$6} END {print "passed",p,"failed",f}'
mkdir -p "$(dirname "$dest")"; cp "$demo" "$dest"
echo "--- demo with the patch"
cargo test -p "$pkg" ${SEED_FEATURES:+--features "$SEED_FEATURES"} --test "$tname" --offline 2>&1 | grep -E "^test result|error\[" | head -3
rm -f "$dest"; git checkout -q -- .
