#!/bin/bash
# usage: tools/seedrun.sh <patch.diff> <tier> <check ids...>   — applies the patch to /repo, runs the checks, always reverts
set -u
patch="$1"; tier="$2"; shift 2
if ! git -C /repo diff --quiet; then echo "repo dirty"; exit 2; fi
rm -rf /verif/target/evidence.bak; cp -r /verif/evidence /verif/target/evidence.bak
git -C /repo apply "$patch" || { echo "patch does not apply"; exit 2; }
cd /verif
for id in "$@"; do
  out=$(./check $id $tier 2>/dev/null); rc=$?
  printf "%s rc=%d  %s\n" "$id" "$rc" "$(echo "$out" | grep -m1 'what:' | cut -c1-260)"
done
git -C /repo checkout -- .
# evidence must only ever describe the unchanged tree: restore what was there before the seeded run
rm -rf /verif/evidence; cp -r /verif/target/evidence.bak /verif/evidence
