#!/bin/bash
# Builds everything the checks need, offline, from files on disk. Each ./check re-runs the
# (incremental) builds itself, so this only warms the caches.
set -u
export CARGO_NET_OFFLINE=true
cd /verif/harness || exit 1
mkdir -p /verif/target /verif/replays /verif/evidence
cargo build --release --offline -p vp-check -p vp-tantivy 2>&1 | tail -2
cargo build --profile checked --offline -p vp-check 2>&1 | tail -1
cargo build --release --offline --manifest-path /repo/Cargo.toml --target-dir /verif/target/cli -p predict -p evaluate -p manipulate_model -p train -p convert_kytea_model 2>&1 | tail -1
# C13 quick feature sets (parallel, own target dirs)
for fs in "std,cache-type-score,fix-weight-length,charwise-pma,tag-prediction" "" "std,fix-weight-length,charwise-pma,tag-prediction" "std,cache-type-score,charwise-pma,tag-prediction" "std,cache-type-score,fix-weight-length,tag-prediction" "std,cache-type-score,fix-weight-length,charwise-pma"; do
  name="${fs//,/+}"; [ -z "$name" ] && name="alloc-only"
  ( cargo build --release --offline -q --manifest-path /verif/harness/vp-flags/Cargo.toml --target-dir "/verif/target/flags/$name" --no-default-features ${fs:+--features "$fs"} 2>&1 | tail -1 ) &
done
( cargo +nightly build --release --offline -q --manifest-path /verif/harness/vp-flags/Cargo.toml --target-dir "/verif/target/flags/nightly-std+cache-type-score+fix-weight-length+charwise-pma+tag-prediction+portable-simd" --no-default-features --features "std,cache-type-score,fix-weight-length,charwise-pma,tag-prediction,portable-simd" 2>&1 | tail -1 ) &
# C08: nightly probe crate (interior mutability of Predictor)
( cargo +nightly build --release --offline -q --manifest-path /verif/harness/vp-freeze/Cargo.toml --target-dir /verif/target/freeze 2>&1 | tail -1 ) &
( /verif/tools/loomprep.sh > /dev/null 2>&1 && cargo build --release --offline -q --manifest-path /verif/harness/vp-loom/Cargo.toml --target-dir /verif/target/loom 2>&1 | tail -1 ) &
wait
echo "setup done"
