#!/usr/bin/env python3
"""Regenerates /verif/MANIFEST.json from the table below (python3 tools/mkmanifest.py)."""
import json, sys

ALL = ["C%02d" % i for i in range(1, 21)]

CHECKS = {
 "C01": dict(level="exploration", section="3/C01",
   technique="bounded-exhaustive enumeration of (model, text) on the real predictor vs. a naive reference scorer",
   text="Every model in five small families (all <=2/<=3-entry subsets of a pattern pool, suffix chains, threshold weights, large windows around the fixed/variable weight switch, tag-aware scorer variants) x every text over a 3/4-letter multi-byte alphabet up to length 5/6 is executed on the real Predictor and compared boundary by boundary with a triple-loop reference of the pointwise linear model. Exhaustive within those bounds; the defects this property worries about (suffix merge, edge offsets, cache table arithmetic) have small witnesses.",
   note="Trusted: the reference position law (README dictionary example, scorer test diagrams), CharacterType::get_type, the harness model mirror (self-checked against resources/model.bin on every run). Outside the bound: >3 interacting entries, texts longer than the bound, i32 overflow."),
 "C02": dict(level="exploration", section="3/C02",
   technique="bounded-exhaustive enumeration of all boundary label vectors on real Sentence objects vs. a reference tokeniser",
   text="Every label vector in {N,W,U}^(n-1) for n up to 9/12 characters (all 3^(n-1) of them), two text shapes (ASCII and 1-4-byte characters including the format delimiters) and tag counts 0 and 2 with a distinct tag in every slot, is turned into a real Sentence (from_raw + boundaries_mut + reset_tags + tags_mut) and iter_tokens / Token::{start,end,surface,tags} / write_tokenized_text are compared with a reference segmenter. Runs of consecutive unknown-containing segments, the case the property singles out, occur in every length >= 5.",
   note="Trusted: ref_tokens / ref_write_tokenized in refmodel.rs. Outside the bound: sentences longer than 12 characters (the iterator state is two indices; longer inputs repeat the same transitions)."),
 "C03": dict(level="exploration", section="3/C03",
   technique="bounded-exhaustive write->parse round trip and parse->write idempotence over hostile alphabets",
   text="All texts up to 4/5 characters over {a, space, /, backslash, 1-, 3- and 4-byte letters} x all fully segmented label vectors; 1-3 tokens x every per-token tag list (absent entries included) over 8 hostile tags; a cross product on reduced pools; and every string up to length 7/9 over {a, space, /, backslash, hiragana} for write-after-parse idempotence. Each is written by the real writer and re-parsed by the real parser; text, boundaries and per-token tags (up to trailing absent tags) must agree and the written bytes must be valid UTF-8.",
   note="Trusted: nothing beyond the harness comparison. A panic of the first parse is not counted here (parser totality is C05). Outside the bound: longer texts/tags, tags on non-final characters (documented as ignored)."),
 "C04": dict(level="exploration", section="3/C04",
   technique="bounded-exhaustive write->parse round trip of the partial-annotation format",
   text="All texts up to 4/5 characters over {a, hiragana, -, |, space, /, backslash} x all {-,|,space} label vectors; reduced texts x every <=1-tag assignment on every character over 9 hostile tags (delimiters, escapes, multi-byte); <=2-character texts x every <=2-tag list per character. Written by the real writer, re-parsed by the real parser, compared on text, every label and every character's tags up to trailing absent tags.",
   note="Trusted: nothing beyond the harness comparison. Outside the bound: longer texts, more than 2-3 tags per character."),
 "C05": dict(level="model_checking", section="3/C05",
   technique="explicit-state BFS to fixpoint over real Sentence histories + exhaustive string enumeration for parser totality",
   text="Part 1: every string up to length 5/6 over {a, hiragana, space, /, backslash, -, |, NUL} (37 449 / 299 593 strings) goes through the three constructors and the three updates from two prior states; nothing may unwind and each update must agree with its constructor (or leave the default sentence). Part 2: breadth-first search over ALL histories of one real Sentence object under a 36-operation alphabet (valid and invalid inputs for each update, reset_tags, five predictors, fill_tags, four filters) until no new state appears (fixpoint, not a depth bound; ~2x10^5 states, ~7x10^6 transitions); every update_* / reset_tags transition out of every reachable state is checked against the fresh constructor, the default sentence and the shape laws (one type per character, n-1 labels, chars x n_tags tag slots, no scores, all accessors/writers/iterators work).",
   note="State key = 128-bit hash of the full field snapshot exposed by the verif-hooks accessor plus harness bookkeeping, so merged states have the same futures (up to a hash collision). The documented panic (fill_tags after a predict_tags=false predictor) is a disabled transition. Parser content correctness is C03/C04. Outside the bound: inputs outside the pools, strings longer than 6."),
 "C08": dict(level="model_checking", section="3/C08",
   technique="explicit-state BFS to fixpoint over real Sentence histories with a fresh-vs-reused differential oracle + exhaustive call-level thread interleavings under a baton scheduler",
   text="C08a: the same fixpoint search as C05 over the 36-operation alphabet; in every reachable state whose last successful update lies at most 3/4 operations back, the complete public observation (text, types, boundaries, scores, tags, tag count, tokens with spans/surfaces/tags, stored tag candidates where defined, both written forms, each as value-or-panic) must equal that of a freshly constructed sentence given the same input and the same operations; any panic of a legal operation on a reused sentence is a violation. Because the search closes under the alphabet, the verdict covers all finite histories over it. C08b: 2 threads x 4 calls and 3 threads x 3 calls (update_raw, predict, fill_tags) on shared predictors, every interleaving (70 resp. 1680 per assignment) executed on real OS threads that pass a baton, each thread's observation compared with its sequential run.",
   note="C08b scheduling points are API calls: the code has no lock, atomic or channel that loom/shuttle or this scheduler could pre-empt at, so mid-call interleavings are not explored (they could differ only through unsynchronised shared writes, which need unsafe/interior mutability that Predictor does not have; a compile-time Send+Sync assertion guards the type-level claim). If the schedule search finds violations the history search is skipped (shared state makes the parallel BFS non-replayable)."),
 "C06": dict(level="exploration", section="3/C06",
   technique="bounded-exhaustive enumeration of tag-model families x texts x boundary vectors vs. a naive per-token linear classifier",
   text="Tag-model families T1 (all pairs of category shapes, 0-3 candidates per category, interleaving trained and single-candidate categories), T2 (all subsets of a 12-element tag n-gram pool: character and type n-grams, every relative position 0..W, the same n-gram at two offsets, n-grams shared between tokens, n-grams equal to / suffix of / extended by boundary patterns), T3 (models lacking a boundary scorer of one or both kinds, or having only tag n-grams), T4 (8, 9, 10 classes around the fixed/variable score-vector switch) for W in {1,2}/{1,2,3}; all texts over {a,b,hiragana} up to length 4/5; boundaries as predicted and every forced {N,W,U} vector; score storing on and off. tags(), n_tags(), Token::tags() and Token::tag_candidates() must equal the reference (ties -> first).",
   note="Trusted: ref_tags in refmodel.rs; boundaries at fill time are read back from the sentence (their correctness is C01). Outside the bound: more than 3 tokens with models, tag n-grams longer than 3, texts longer than 5."),
 "C07": dict(level="fault_enumeration", section="3/C07",
   technique="exhaustive enumeration of truncation points, header corruptions and reader/writer fault positions on real model serialisations",
   text="For each model of a pool (empty, varint-width extremes, long comments, multi-byte, sub-sampled C01/C06 families, resources/model.bin, the Tantivy test model): round trip through slice, reader and writer; readers delivering 1/2/7/all bytes per call; four tails after the model; EVERY proper prefix through read_slice and read; EVERY single-byte change of the 25 header bytes; a reader and a writer that fail with Err, Ok(0), Interrupted-once or a transient Err-once at EVERY byte position under three chunk sizes. All must yield Err (or, for Interrupted, succeed with the identical model): never a panic, never a different model, and bytes taken by a failing writer must be a prefix of the serialisation.",
   note="Trusted: bincode's standard configuration, read_exact's retry of Interrupted. Byte identity is checked only where no hash map is encoded (models contain none)."),
 "C14": dict(level="exploration", section="3/C14",
   technique="bounded-exhaustive differential execution: original predictor vs. deserialise(serialise(predictor)) on all texts",
   text="Every model of the (sub-sampled, step stated in evidence) C01 and C06 families plus zero / trailing-zero weight vectors, with and without tag prediction, is serialised, followed by one of four tails, deserialised, and both predictors are run on every text over a 4-letter alphabet up to length 4/5 with score storing off and on; the rest slice must equal the tail and the full public observation (scores, boundaries, tags, tag candidates, tokens, written forms) must be identical.",
   note="Scope is self-produced bytes (the API is unsafe for foreign bytes). Bytes are never compared across runs (hash-map order). daachorse (de)serialisation trusted."),
 "C15": dict(level="exploration", section="3/C15",
   technique="bounded-exhaustive enumeration of sentences x filters vs. rule-level reference (grapheme clusters from unicode-segmentation over the whole string)",
   text="The six character-type filters, the line-break filter and the grapheme filter on every text up to 4/5 characters over a 13-letter alphabet (digit, Roman, kana, kanji, '.', CR, LF, ZWJ, pictograph, regional indicator, combining mark, skin-tone modifier) x every {N,W,U} label vector x three tag fillings; the pattern tagger with all 256 rule tables over surfaces {a, ab} (tag vectors of length 0-3 with absent entries) x texts x label vectors x tag counts 0-3 x three tag fillings. Text, types, tags (resp. boundaries) must be untouched, exactly the rule's boundaries/tags must change, a second application must change nothing, nothing may panic.",
   note="Trusted: unicode-segmentation's extended grapheme clusters on the whole string. Out-of-bounds reads that do not crash are C18's business (same space under an instrumented build)."),
 "C19": dict(level="exploration", section="3/C19",
   technique="bounded-exhaustive API differential (replace_dictionary vs reference score deltas) + exhaustive hostile-word sweep through the real manipulate_model binary",
   text="API: sub-sampled C01 models x every replacement dictionary of <=2 words x all texts: the mirror-decoded model must differ only in the dictionary and every boundary score must move by exactly ref(new) - ref(old); WordWeightRecord::new is probed with every weight count 0..7 on six single- and multi-byte words. CLI: the real manipulate_model is run on every word up to 2/3 characters over {a , \" space LF CR hiragana #} with extreme weights (16- and 32-bit limits) and hostile comments, each alone and all together: --dump-dict, --replace-dict with the untouched dump, byte comparison of the zstd-decoded models, and a dump edited to a wrong weight count must be rejected with no output model.",
   note="Trusted: csv and zstd crates, the mirror. Process spawns use files under /verif/target/scratch."),
 "C09": dict(level="exploration", section="3/C09",
   technique="configuration-grid sweep with real training; learner's own recorded quantised coefficients re-applied by an independent feature extractor",
   text="For every (char window, char n, type window, type n) in {1,2,3}^4 / {0..4}^4 (differing windows and n > window included), three dictionaries x length buckets {1,2,4}, solvers {1,5} / all eight, and 4 / 12 tiny corpora (tokenized, partially annotated, mixed), the real trainer runs with real liblinear; then every boundary of every text of 2-4 characters over {a,b,hiragana,digit} is scored by Predictor::new(trained) and compared with recorded quantised bias + sum over the documented features of the recorded quantised weight (verif-hooks trace of the same run). The weight-vector layout clause (each n-gram vector covers exactly its own window) is checked on the mirror-decoded model.",
   note="The oracle uses the coefficients of the same run, so liblinear numerics, rand() and hash-map order cannot cause an alarm. Configurations on which training errors or panics are skipped here (C11). Trusted: ref_features in train.rs, the trace hook (records values the trainer computed, changes nothing)."),
 "C10": dict(level="exploration", section="3/C10",
   technique="bounded-exhaustive enumeration of (configuration, labelled sentence) vs. an independent feature extractor on the decoded example store",
   text="Every (char window, char n, type window, type n) in {0..3}^4 / {0..4}^4 x 7 dictionary/bucket variants x every sentence up to 3/4 characters over {a,b,hiragana,digit} x every {N,W,U} label vector, added alone and (sub-sampled) in pairs: the examples decoded from the trainer (verif-hooks accessor) must equal, as a multiset, exactly one example per annotated boundary, labelled by its annotation, with exactly the documented n-gram and dictionary features (counts included); unknown boundaries contribute nothing.",
   note="Trusted: ref_features in train.rs (n-grams of length 1..N fully inside the window with their relative positions; one left/inside/right feature by bucket per dictionary-word occurrence touching the boundary) and the read-only accessor hook."),
 "C11": dict(level="exploration", section="3/C11",
   technique="configuration x corpus sweep with real training; usability obligations checked on every returned model",
   text="Window and n-gram sizes {0,1,2,3} / {0,1,2,3,5} on all four axes (plus 8 and 255 one axis at a time), dictionaries with buckets {1,2} / {1,2,4,255}, rotating / all eight solvers, and 12 / 14 corpora (empty, single-character sentence, no word boundary, only word boundaries, untagged, tagged with 1-3 categories and absent tags, partially annotated, all-unknown, tag-dictionary-only tokens): Trainer::new / add_example / train must return Ok or Err and never unwind; every returned model must write, re-read to identical bytes, be accepted by Predictor::new with and without tag prediction, predict and fill_tags every text up to 3 characters without panicking, and contain only 16-bit weights.",
   note="A crash inside liblinear (C++) kills the engine process; the driver reports that as a violation with the crash log. Token::tag_candidates is not part of this property's observation (documented panic without stored scores)."),
 "C12": dict(level="exploration", section="3/C12",
   technique="corpus x configuration sweep with real training; black-box clauses on the mirror-decoded model + stored scores vs. the learner's recorded quantised classifier",
   text="Corpora are sub-sampled pairs of two-token sentences over ten tagged-token variants (0-2 categories, absent tags, ambiguous tags in one or both categories) plus a tag-free filler sentence, with three tag-dictionary variants (none, dictionary-only token, token also in the corpus), plus partially annotated corpora; window/n-gram sizes with n <, =, > window; solvers {1,5} / all eight. After real training: exactly one tag model per required token, per category exactly the distinct observed tags without duplicates, bias and weight vectors sized to the trainable candidates; on every text up to 3 characters over {a,b,hiragana} with every forced {N,W,U} boundary vector, single-candidate categories yield that tag, ambiguous ones a member, unseen tokens nothing, and every stored candidate score equals recorded quantised bias + recorded weights of the documented tag features (class ids mapped to tag names by the trace).",
   note="Tokens that occur in the corpus only untagged (alone or also in the tag dictionary) may or may not get a model: the statement does not decide it, either is accepted. Trusted: ref_tag_features in train.rs and the trace hook. Replays re-train (randomised by liblinear's rand() and hash order) up to 8 times."),
 "C13": dict(level="exploration", section="3/C13",
   technique="one worker binary per cargo feature subset, all run on the same exhaustive (model, text) enumeration and compared with the reference model line by line",
   text="Quick: default, alloc-only and default-minus-each-optional-feature (6 builds); thorough: all 16 subsets of {cache-type-score, fix-weight-length, charwise-pma, tag-prediction} x {std, no std} (32 builds) plus portable-simd on the installed nightly (2 builds). Each worker links vaporetto built from /repo's working tree with exactly that feature set and processes sub-sampled C01 families (F1, F1b, F2, F4) and C06 tag-model families x all texts up to 4 characters over a 4-letter multi-byte alphabet; every output line (scores, boundaries, and tags where tag-prediction is compiled in) must equal the reference, hence all builds agree with each other.",
   note="Workers are std binaries even when vaporetto is built without std. If a nightly-only feature set does not build in this sandbox it is listed in evidence as not checkable (both built here). Trusted: refmodel.rs."),
 "C16": dict(level="exploration", section="3/C16", engine="vp-tantivy",
   technique="exhaustive enumeration of all Unicode scalar values for the normaliser + bounded-exhaustive differential of the Tantivy token stream against the in-process core pipeline",
   text="Normaliser: all 1 112 064 Unicode scalar values (one character out, equal to the golden table entry or unchanged, idempotent) and every string up to 3/4 characters over 8 table + 4 non-table characters (character-wise, length-preserving, idempotent). Token stream: 4 models (Tantivy test model, resources/model.bin, two generated) x texts up to 4/5 characters over {a,1,A,hiragana,kanji,-,CR,LF,ZWJ,pictograph,4-byte kanji,NUL} and the empty text x wsconst strings of length 0-2/0-3 over {D,R,H,T,K,O,G}: tokens must lie on character boundaries of the ORIGINAL text, tile it, carry the original substring and consecutive positions, and break exactly where normalise + predict + line-break filter + configured filters break.",
   note="Golden table = copy of the 96 mappings from the pinned commit. For texts the core pipeline rejects (NUL) only the structural laws are required. Longest wsconst strings see a rotating 1/7 (1/5) of the texts."),
 "C17": dict(level="fault_enumeration", section="3/C17",
   technique="harness-side KyTea binary writer drives bounded-exhaustive conversion checks + every truncation point of every generated file and of resources/kytea-model.bin",
   text="Generated KyTea files: 2 character maps (multi-byte, type letters, the 0x04 type byte) x window pairs x every set of <=2/<=3 n-grams per trie (prefix-related keys so states are both branch and inner, extra stored weights) and 1/2/8 dictionaries x buckets {1,2,4} x word sets x membership-mask assignments, 0-2 tag slots. The converted model, decoded by the mirror, must contain exactly the file's n-grams, type codes, bias, windows and per-word weights (summed over member dictionaries by bucket) and score every text up to 4 characters as those weights dictate. Every proper prefix of the generated files (quick: every 4th) and of resources/kytea-model.bin must yield Err, never a panic.",
   note="TRUSTED: the field order of KyTea's binary format as read at the pinned commit (no second implementation exists in the sandbox); the arithmetic on top of it is what is checked. Files without a character or type trie are not generated (the converter rejects them by design)."),
 "C18": dict(level="exploration", section="3/C18",
   technique="re-execution of the other checks' exhaustive enumeration spaces in instrumented builds (debug assertions + std precondition checks; optional ASan), child processes",
   text="The quick enumeration spaces of C01 (incl. large-window edges), C02, C03, C04, C06, C08 (history BFS + thread interleavings), C14, C15 (thorough: + C05) are re-executed by the same harness built in a `checked` profile (opt-level 1, debug-assertions on: every debug_assert! next to an unchecked access and, since Rust 1.78, the standard library's precondition checks for get_unchecked*/unwrap_unchecked/str slicing are armed). Only debug-assertion failures, precondition aborts (process death), sanitizer reports and invalid UTF-8 from the tokenized writer count; functional mismatches are left to the owning property.",
   note="An out-of-range unchecked access that passes neither a debug_assert nor a std precondition check is visible only to a sanitizer build (thorough tier uses it when /verif/target/asan exists). Feature configurations other than the default are covered functionally by C13, not instrumented here."),
 "C20": dict(level="exploration", section="3/C20",
   technique="bounded-exhaustive differential of the real predict / evaluate binaries against the library pipeline executed in-process",
   text="predict: every stream of 1-2 lines (thorough: plus all 3-line streams containing a rejected line) from a 10-line pool (empty, NUL, spaces, slashes, backslashes, half-width, multi-byte) with and without final newline x every subset of {--no-norm, --predict-tags, --scores, --tag-scores} x wsconst {none, D, G, D G} x {model without, model with tag models}: exit status, exactly one tokenised line per input line (empty for rejected input), boundaries/tags/escaping equal to the in-process pipeline applied to the original line, score and tag-score blocks after their line in one fixed layout. evaluate: every stream of 1-2/1-3 tokenized reference lines x {--no-norm} x {--predict-tags} x {char, word} x wsconst x models; printed counts and P/R/F1 equal an independent computation from the library's predictions with the same f64 operations.",
   note="Layout taken from the default mode and the README. For a rejected line only the empty line is fixed (an empty block per requested kind is tolerated). --tag-scores without --predict-tags may be refused cleanly or ignored, but must not panic. Quick runs a rotating third / quarter of the products."),
}

PENDING_REASON = "check not built yet in this round (planned in DESIGN.md section 3); no claim is made"

def main():
    checks = []
    for pid in ALL:
        if pid not in CHECKS:
            continue
        c = CHECKS[pid]
        checks.append({
            "property_id": pid,
            "quick_cmd": f"./check {pid} quick",
            "thorough_cmd": f"./check {pid} thorough",
            "evidence_file": f"/verif/evidence/{pid}.json",
            "replay_cmd_template": "./check replay {path}",
            "engine": c.get("engine", "vp-check"),
            "level_claimed": {"category": c["level"], "text": c["text"], "design_ref": c["section"]},
            "level_note": c["note"],
            "technique": c["technique"],
        })
    na = [{"property_id": p, "reason": PENDING_REASON} for p in ALL if p not in CHECKS]
    m = {
        "version": 1,
        "setup_cmd": "/verif/tools/setup.sh",
        "hooks": {
            "guard": "cargo feature `verif-hooks` on the vaporetto crate (off by default)",
            "enable": "the harness depends on /repo/vaporetto by path with features [train, kytea, verif-hooks]; cargo rebuilds from the working tree on every ./check",
            "baseline_off_cmd": "cd /repo && cargo test --workspace --no-fail-fast --offline",
            "source_commits": ["0dc1169", "27f6ae4", "137675c"],
            "add_only": True,
        },
        "engines": [
            {"name": "vp-check", "path": "/verif/harness/vp-check", "serves_properties": [p for p in ALL if p in CHECKS and CHECKS[p].get("engine", "vp-check") == "vp-check"],
             "kind_free_text": "Rust binary linking the real crates by path: bounded-exhaustive enumerators, explicit-state BFS over real Sentence objects, fault enumerators, baton scheduler, trainer sweeps, CLI differential; oracles are harness-side reference models"},
            {"name": "vp-tantivy", "path": "/verif/harness/vp-tantivy", "serves_properties": ["C16"], "kind_free_text": "separate binary (pulls in tantivy) for the normaliser and token-stream enumeration"},
            {"name": "vp-flags", "path": "/verif/harness/vp-flags", "serves_properties": ["C13"], "kind_free_text": "worker crate built once per cargo feature subset of vaporetto (own target directory each)"},
        ],
        "checks": checks,
        "not_applicable": na,
        "notes": "All checks execute the implementation itself (no separate abstract model); see DESIGN.md. exit 0 = held, 1 = VIOLATION line(s), 2 = MACHINERY-ERROR (never a verdict).",
    }
    json.dump(m, open("/verif/MANIFEST.json", "w"), indent=1, ensure_ascii=False)
    print("checks:", [c["property_id"] for c in checks], "n/a:", len(na))

main()
