#!/bin/bash
# usage: tools/runall.sh quick|thorough [ids...]   — runs the checks sequentially, prints one line each
tier="${1:-quick}"; shift
ids="$@"; [ -z "$ids" ] && ids="C01 C02 C03 C04 C05 C06 C07 C08 C09 C10 C11 C12 C13 C14 C15 C16 C17 C18 C19 C20"
cd /verif
for id in $ids; do
  s=$(date +%s.%N)
  out=$(./check $id $tier 2>/dev/null); rc=$?
  e=$(date +%s.%N)
  printf "%s rc=%d %5.1fs  %s\n" "$id" "$rc" "$(echo "$e - $s" | bc)" "$(echo "$out" | tail -1 | cut -c1-150)"
done
