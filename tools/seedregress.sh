#!/bin/bash
# Re-applies every stored seeded change to /repo (one at a time, always reverted) and runs the
# checks that are recorded as catching it; prints one line per (seed, check). rc=1 is the expected outcome.
# ONLY="C01 C13" restricts the run to those checks (a partial regression after changing only them);
# SINCE="round 18" additionally keeps every check of the seeds whose note mentions that round.
cd /verif
rm -rf /verif/target/evidence.bak; cp -r /verif/evidence /verif/target/evidence.bak
for d in seeded/*/; do
  n=$(basename "$d")
  [ -f "$d/patch.diff" ] || continue
  checks=$(python3 -c "
import json,os
m=json.load(open('$d/meta.json')); only=os.environ.get('ONLY','').split(); since=os.environ.get('SINCE','')
keep=[c for c in m['caught_by'] if not only or c in only or (since and since in m.get('note',''))]
print(' '.join(keep))")
  [ -n "$checks" ] || continue
  tier=$(python3 -c "import json;print(json.load(open('$d/meta.json')).get('tier','quick'))")
  if ! git -C /repo diff --quiet; then echo "repo dirty"; exit 2; fi
  git -C /repo apply "/verif/$d/patch.diff" || { echo "$n: PATCH DOES NOT APPLY"; continue; }
  for c in $checks; do
    ./check $c $tier >/dev/null 2>&1; rc=$?
    echo "$n $c rc=$rc $([ $rc -eq 1 ] && echo CAUGHT || echo NOT-CAUGHT)"
  done
  git -C /repo checkout -- .
done
rm -rf /verif/evidence; cp -r /verif/target/evidence.bak /verif/evidence
