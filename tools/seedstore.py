#!/usr/bin/env python3
"""usage: seedstore.py <name> <property> <out-dir> '<needs>' '<caught_by csv>' '<missed_before csv>' '<note>'"""
import sys, os, shutil, json, glob
name, prop, out, needs, caught, missed, note = sys.argv[1:8]
d = f'/verif/seeded/{name}'
os.makedirs(d, exist_ok=True)
for f in glob.glob(out + '/*'):
    b = os.path.basename(f)
    if b.endswith(('.diff', '.rs', '.sh', '.md')) and os.path.getsize(f) < 200000:
        shutil.copy(f, d + '/' + b)
meta = {
    "breaks_property": prop,
    "origin": "fresh sub-agent given only the property text and a private git worktree (nothing from /verif)",
    "needs_to_manifest": needs,
    "confirmed": [
        "demonstration passes on the clean tree (tools/seedverify.sh)",
        "with patch.diff applied the repository suite passes (cargo test --workspace --no-fail-fast --offline: 122 passed, 0 failed incl. doctests)",
        "with patch.diff applied the demonstration fails",
    ],
    "checks_run": "git -C /repo apply patch.diff; ./check <ID> quick; git -C /repo checkout -- .  (tools/seedrun.sh)",
    "caught_by": [c for c in caught.split(',') if c],
    "missed_before_strengthening": [c for c in missed.split(',') if c],
    "note": note,
}
json.dump(meta, open(d + '/meta.json', 'w'), indent=1, ensure_ascii=False)
print('stored', d, sorted(os.listdir(d)))
