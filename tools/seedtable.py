#!/usr/bin/env python3
"""Regenerates section 8.2 of DESIGN.md from seeded/*/meta.json (python3 tools/seedtable.py)."""
import json, glob, os, re
rows = ["| seeded change | breaks | needs to manifest | caught by (quick tier) | missed before strengthening |", "|---|---|---|---|---|"]
n = missed = 0
for f in sorted(glob.glob('/verif/seeded/*/meta.json')):
    m = json.load(open(f)); name = os.path.basename(os.path.dirname(f)); n += 1
    if m['missed_before_strengthening']: missed += 1
    rows.append(f"| `{name}` | {m['breaks_property']} | {m['needs_to_manifest']} | {', '.join(m['caught_by'])} | {', '.join(m['missed_before_strengthening']) or '-'} |")
text = f"""### 8.2 Changes seeded by independent sub-agents

Each change was produced by a fresh sub-agent that saw only the text of one property and a private
git worktree (nothing from /verif), then confirmed here: the demonstration passes on the clean tree,
the repository suite passes with the patch, the demonstration fails with the patch
(`tools/seedverify.sh`); the patch was applied to /repo, the checks were run and /repo was restored
(`tools/seedrun.sh`; `tools/seedregress.sh` repeats this for all stored seeds). {n} changes are stored
under `seeded/`; {missed} of them were missed by the first version of the owning check and led to the
strengthening described in their `meta.json` (`note`) and in section 7; all {n} are caught now (last full regression, after round 17: 292 of 292 (seed, check) pairs over 246 seeds report a violation; after round 18 a partial regression over the seven checks changed since and all round-18 seeds: 119 of 119, after round 19 over C19 (the only check changed): all of its seeds; earlier full regressions: 112/112 after round 4, 168/168 after round 7).

**Cross-over seeds.** Some changes were written against one property but violate a clause that
another property owns (a sentence-update defect written for C02 or C10, a parse-content defect
written for C05, a serialised-form defect written for C01, a feature-extraction defect written for
C09, a cross-feature defect written for C07). The owning check (C05/C08, C03, C14, C10, C13) caught
them; the check of the property the author named stayed silent because its clause is not violated
(C02 builds its sentences from labels, C05 judges totality and consistency, C01 scores direct
predictors, ...). They are listed with the checks that catch them and as "missed" by the named
check; where the owning check needed a new family that is stated in the note. Duplicates of an
earlier seed (same patch) were not stored again.

""" + "\n".join(rows) + "\n"
p = '/verif/DESIGN.md'
s = open(p).read()
marker = '### 8.2 Changes seeded by independent sub-agents'
if marker in s:
    s = s[:s.index(marker)]
s = s.rstrip() + "\n\n" + text
open(p, 'w').write(s)
print(n, 'seeds,', missed, 'missed at first')
