#!/usr/bin/env python3
"""Prints the markdown table of seeded changes from seeded/*/meta.json (for DESIGN.md section 8.2)."""
import json, glob, os
print("| seeded change | breaks | needs to manifest | caught by | missed before strengthening |")
print("|---|---|---|---|---|")
for f in sorted(glob.glob('/verif/seeded/*/meta.json')):
    m = json.load(open(f)); n = os.path.basename(os.path.dirname(f))
    print(f"| `{n}` | {m['breaks_property']} | {m['needs_to_manifest']} | {', '.join(m['caught_by'])} | {', '.join(m['missed_before_strengthening']) or '-'} |")
