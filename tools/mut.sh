#!/bin/bash
# usage: mut.sh <file-relative-to-/repo> <python-expr-old> <new> -- <check args...>
# applies a single textual replacement to /repo, runs the check, and always reverts.
set -u
f="$1"; old="$2"; new="$3"; shift 3; [ "$1" = "--" ] && shift
cd /repo || exit 2
if ! git diff --quiet; then echo "repo dirty"; exit 2; fi
python3 - "$f" "$old" "$new" <<'PY'
import sys
f,old,new=sys.argv[1:4]
s=open(f).read()
assert s.count(old)>=1, "pattern not found"
s=s.replace(old,new,1)
open(f,'w').write(s)
PY
rc=$?
if [ $rc -ne 0 ]; then git checkout -- .; exit 2; fi
rm -rf /verif/target/evidence.bak; cp -r /verif/evidence /verif/target/evidence.bak
cd /verif && "$@"; rc=$?
rm -rf /verif/evidence; cp -r /verif/target/evidence.bak /verif/evidence
git -C /repo checkout -- .
echo "exit=$rc"
